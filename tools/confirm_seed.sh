#!/bin/bash
# Confirms each seeded change in a scratch worktree: compiles, existing tests pass,
# demo fails with the change and passes without it.
export CARGO_NET_OFFLINE=true
WT=/tmp/wt/confirm
cd /repo && git worktree add --detach $WT HEAD >/dev/null 2>&1
cd $WT || exit 1
cargo build --offline >/dev/null 2>&1
cp target/debug/n2 /tmp/seed/n2.head
for m in "$@"; do
  dir=/tmp/seed/$m
  patch=$dir/patch.diff
  [ -f /verif/seeded/${m/\//-}/patch.diff ] && patch=/verif/seeded/${m/\//-}/patch.diff
  git reset -q --hard HEAD
  if ! git apply -3 $patch 2>/dev/null && ! git apply $patch; then echo "RESULT $m apply=FAIL"; continue; fi
  tests=$(cargo test --workspace --no-fail-fast --offline 2>&1 | grep -E "^test result" | awk '{p+=$4; f+=$6} END {print p" passed "f" failed"}')
  cargo build --offline >/dev/null 2>&1; b=$?
  cp target/debug/n2 /tmp/seed/n2.mut
  demo=$(ls $dir/demo.sh 2>/dev/null)
  with="n/a"; without="n/a"
  if [ -n "$demo" ]; then
    (cd /tmp && timeout 300 bash $demo /tmp/seed/n2.mut >/tmp/seed/demo.with.log 2>&1); with=$?
    (cd /tmp && timeout 300 bash $demo /tmp/seed/n2.head >/tmp/seed/demo.without.log 2>&1); without=$?
  fi
  echo "RESULT $m build=$b tests=[$tests] demo_with=$with demo_without=$without"
done
git reset -q --hard HEAD
cd /repo && git worktree remove --force $WT
