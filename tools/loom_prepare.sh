#!/bin/bash
# tools/loom_prepare.sh: builds the loom harness against a scratch copy of /repo's
# current working tree and prints the path of the binary.
#
# The copy lives outside /repo and /verif (on /dev/shm, fixed path so that cargo can
# reuse its build cache; serialised by a lock).  In the copy only, the std sync/thread
# paths of src/task.rs and src/progress_fancy.rs are rewritten to loom's, the harness
# modules of /verif/harness/loomh are added, and `loom` is appended to Cargo.toml.
# Exit 0 + path on stdout; exit 2 on machinery failure (message on stderr).
set -u
export CARGO_NET_OFFLINE=true
S=/dev/shm/n2verif-loom
H=/verif/harness/loomh
mkdir -p /verif/target/loom
exec 8>/verif/target/loom/.lock
flock 8
mkdir -p $S/n2
rsync -a --delete --exclude target --exclude .git /repo/Cargo.toml /repo/Cargo.lock /repo/src /repo/benches $S/n2/ 2>/dev/null || { echo "loom_prepare: copy failed" >&2; exit 2; }
[ -f /repo/build.rs ] && cp -p /repo/build.rs $S/n2/
cd $S/n2 || exit 2
# `std` is shadowed inside the two files (see harness/loomh/loomh.rs, mod fakestd); the
# two `use` lines go after the leading `//!` block.
for f in src/task.rs src/progress_fancy.rs; do
  python3 - "$f" <<'PY' || exit 2
import sys,re
p=sys.argv[1]; lines=open(p).read().split('\n')
i=0
while i<len(lines) and (lines[i].startswith('//!') or lines[i].strip()==''): i+=1
lines[i:i]=['#[allow(unused_imports)]','use crate::loomh::fakestd as std;','#[allow(unused_imports)]','use crate::loomh::CondvarExt as _;']
open(p,'w').write('\n'.join(lines))
PY
  if grep -nE '(^|[^A-Za-z0-9_:])::std::(sync|thread)' "$f" >&2; then
    echo "loom_prepare: $f names ::std::sync / ::std::thread absolutely; loom cannot see that" >&2; exit 2
  fi
done
cp $H/loomh.rs src/loomh.rs
cp $H/loomh_runner.rs src/loomh_runner.rs
cp $H/loomh_fancy.rs src/loomh_fancy.rs
mkdir -p src/bin && cp $H/loomh_main.rs src/bin/loomh.rs
printf '\npub mod loomh;\n' >> src/lib.rs
printf '\n#[path = "loomh_runner.rs"]\npub(crate) mod loomh_runner;\n' >> src/task.rs
printf '\n#[path = "loomh_fancy.rs"]\npub(crate) mod loomh_fancy;\n' >> src/progress_fancy.rs
# loom dependency and a cheap profile.
python3 - <<'PY' || exit 2
import re
p='Cargo.toml'; s=open(p).read()
s=s.replace('[dependencies]\n','[dependencies]\nloom = "0.7"\n',1)
s+='\n[profile.loomh]\ninherits = "dev"\nopt-level = 1\ndebug = false\n'
open(p,'w').write(s)
PY
log=/verif/target/loom/build.log
if ! CARGO_TARGET_DIR=/verif/target/loom cargo build --offline --profile loomh --no-default-features --features verif --bin loomh >"$log" 2>&1; then
  tail -40 "$log" >&2; echo "loom_prepare: build failed" >&2; exit 2
fi
cp /verif/target/loom/loomh/loomh /verif/target/loom/loomh.bin.new && mv -f /verif/target/loom/loomh.bin.new /verif/target/loom/loomh.bin || exit 2
rm -rf $S
echo /verif/target/loom/loomh.bin
