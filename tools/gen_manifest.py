#!/usr/bin/env python3
"""Regenerates /verif/MANIFEST.json from the table below (kept next to the
checks so that the claimed level, technique and notes are edited in one place)."""
import json, subprocess, os

HOOK_COMMITS = ["beaccff", "1de206f", "b856256", "ead1da9", "78f565b", "44dff6d"]

CHECKS = {
 "C13": dict(
  engine="inputs/canon + inputs/load",
  category="exploration",
  text="Exhaustive enumeration of every path string up to a length bound over two 5-symbol alphabets (ASCII and multi-byte), plus the 55..63-component boundary family, run through the real canonicalize_path with debug assertions and unsafe-precondition checks on, and compared byte-for-byte with an independent reference component walk; idempotence, no-lengthening, canonical form and same-location are checked on n2's own output. Node identity is checked by loading manifests / resolving targets / reading depfiles for all pairs of spellings of a fixed set of locations. Exhaustive within the bound, which is the right level for a pure function whose bugs are combinatorial in short inputs.",
  design_ref="DESIGN.md §4 C13",
  note="Trusted: the reference walk in harness/vcore/src/refcanon.rs (its unit test replays n2's documented examples). Bound: length <= 9 (quick) / 11 (thorough) over 5 symbols; longer inputs only via the deep-path family.",
  technique="bounded exhaustive input enumeration against a reference model",
 ),

 "C10": dict(
  engine="inputs/load",
  category="exploration",
  text="Abstract manifests of three families (every presence pattern of the optional sections of a build statement over paths that need every escape; every rule-/build-level placement of the step attributes; every short sequence of statement kinds incl. include/subninja/default/pool/comment/binding) are rendered under the canonical spelling and under every spelling with a bounded number of deviations at the spacing / continuation / `$v`-vs-`${v}` choice points, loaded by the real loader (real include files on tmpfs) and compared field by field with a reference loader and with the canonical spelling's dump. Exhaustive within the stated bounds; the grammar-sized space the property quantifies over is exactly what such an enumeration reaches and hand-written examples do not.",
  design_ref="DESIGN.md §4 C10",
  note="Trusted: the reference loader and speller in harness/vcore/src/refmanifest.rs. Bounds: <=1 deviation (quick) / <=2 (thorough) per manifest, all pairs on a shape subset; statement sequences of length <=2 / <=3.",
  technique="bounded exhaustive input enumeration (abstract manifest x spelling deviations) against a reference loader",
 ),
 "C11": dict(
  engine="inputs/load",
  category="exploration",
  text="Eleven binding slots around one build statement (the two variables are named `outd` and `inc`, which merely begin like the implicit $out/$in) (file-level before/after, redefinition, rule-level, build-block, path piece, child-file binding) are each left absent or filled with one of seven expressions that reference x, y, $in, $out in every direction; every assignment with a bounded number of filled slots is loaded with the statement in the main file, in an included file and in a subninja file, followed by a probe statement in the parent, and the evaluated command/description/paths are compared with an independent evaluator that implements the stated lookup chain literally. Exhaustive within the bound.",
  design_ref="DESIGN.md §4 C11",
  note="Trusted: eval_file/eval_path/eval_rule in refmanifest.rs. Bound: <=4 (quick) / <=5 (thorough) filled slots.",
  technique="bounded exhaustive input enumeration against a reference evaluator",
 ),
 "C12": dict(
  engine="inputs/total + inputs/depfile",
  category="exploration",
  text="Totality by exhaustive enumeration with all runtime checks on (debug assertions, overflow checks, unsafe-precondition checks): every short token sequence over a 26-token Ninja alphabet, every short byte string, every single (thorough: double) token mutation and truncation of ~3700 valid manifests, error-column boundary families over 1-4-byte characters, empty expansions in every path position, 58..66-component paths, every short token sequence as an included/subninja'd file on disk incl. include cycles, every short command-line target string, every short depfile string. Each input must load or be rejected with a well-formed diagnostic. Aborts and hangs kill only a worker shard; the parent attributes them to the input through a shared-memory marker and resumes the shard after it.",
  design_ref="DESIGN.md §4 C12",
  note="Trusted: the diagnostic-shape checker. Out-of-bounds reads that no debug assertion or UB check guards are not observable. Bounds: token sequences <=5/6, bytes <=2/3, include content <=3/4 tokens, targets <=6/7, depfile strings <=9/10.",
  technique="bounded exhaustive input enumeration with crash/hang attribution",
 ),
 "C14": dict(
  engine="inputs/load",
  category="exploration",
  text="Every first build statement with 1..3 outputs over six spellings of three locations at every explicit/implicit split, alone and followed by every second statement with 1..2 outputs (same file, included file, or subninja'd before it) and a third statement, is loaded; the reference loader says whether two statements produce one location (then the error must cite both statement locations) or not (then the graph must have unique outputs, a consistent explicit count, and a warning exactly when an output repeats); self-referential phony statements count as producers. Exhaustive within the bound. In addition (scheduler engine, family RD) a generator step rewrites the manifest - or only an included fragment - so that an output gets a second producer: the reload must reject it and nothing more may run, under every completion order.",
  design_ref="DESIGN.md §4 C14",
  note="Trusted: refmanifest.rs add_build and refcanon.rs. Stdout of the loader is captured to observe the warning.",
  technique="bounded exhaustive input enumeration against a reference loader",
 ),
 "C15": dict(
  engine="inputs/depfile",
  category="exploration",
  text="Abstract depfiles (up to 3 entries, up to 3 prerequisites incl. Windows-style paths) under every formatting or every formatting with a bounded number of deviations (spaces before the colon, gaps, backslash-newline continuations, blank lines, trailing blanks, final newline) are written to a real file and read by the real read_depfile; the result must be exactly the listed prerequisites in order. All strings up to a length bound over {a,space,:,\\,newline} and a NUL/CR/UTF-8 alphabet are checked for totality, diagnostic shape and that every reported word is a blank-free piece of the input; strings inside the plain core of the grammar (recognised by an independent reference recogniser: words, colon, blanks and backslash-newline gaps in any mixture, blank-only lines) must parse to exactly the reference prerequisites; through the file path, errors must name the depfile.",
  design_ref="DESIGN.md §4 C15",
  note="Trusted: the formatting generator in refdepfile.rs. Bounds: <=2/3 formatting deviations for multi-entry files, strings <=9/10.",
  technique="bounded exhaustive input enumeration (abstract depfile x formattings) against the abstract content",
 ),
 "C20": dict(
  engine="inputs/render",
  category="exploration",
  text="The render helpers of the fancy progress display are called for every terminal width 10..300, 15 elapsed times across every digit count, messages that place a 1/2/3/4-byte character at every offset around the cut index, every short string over {a,é,€,😀}, every alignment for truncate, every count vector up to a bound for progress_bar, and whole frames through the real print_progress at forced widths; and the shipped binary under a real pty (util-linux script) at 7 widths x 4 character sizes x 4 shifts, and on a pty whose other side stops reading while a frame larger than the pty buffer is written (the display thread blocks in write for 0.6-1.5 s), which must complete the build normally; the result must not panic, must stay within the width at a character boundary and the bar must have its nominal width (frames are painted from wide to narrow inside one process, i.e. across terminal resizes). Exhaustive within the bounds, which cover every residue of the byte arithmetic involved. The second half of the property (a rendering problem never aborts or alters the build) is decided on the thread protocol itself: loom explores every interleaving, up to a preemption bound, of the real FancyConsoleProgress display thread (Mutex + Condvar + timed wait, the timeout modelled as an event raised by a timer thread) against a main thread that plays every well-formed sequence of up to 3 (thorough 4) Progress calls followed by drop: no deadlock, no panic, every log line and finished-task block reaches the terminal exactly once and in order.",
  design_ref="DESIGN.md §4 C20, §14",
  note="The loom job runs on a scratch copy of /repo's working tree in which `std` is shadowed inside progress_fancy.rs so that std::sync/std::thread paths resolve to loom's types (tools/loom_prepare.sh); wait_timeout_while is supplied as std implements it; sleep is a yield. Loom explores sequentially consistent interleavings only (the code uses Mutex/Condvar, no weaker atomics) and up to the stated preemption bound (2, thorough 3).",
  technique="bounded exhaustive input enumeration with invariant oracle; exhaustive thread-interleaving exploration (loom, preemption-bounded) of the real display thread protocol",
 ),

 "C01": dict(
  engine="sched",
  category="model_checking",
  text="Stateless model checking of the real scheduler: the real run::build / Work::run / task::Runner run in-process with real task threads whose innermost run_command is a gate; at every Runner::wait the explorer decides which running command finishes next (and, where n2 iterates a HashSet, in which order newly ready dependents are visited) and the whole choice tree of every scenario is walked by re-execution. Scenarios: all 3-step graphs over all five edge options with a multi-output producer, optional phony step, both statement orders, -j 1..3, with and without a source input of their own per step (so that steps with exactly one ordering input occur); prebuilt trees with every edit vector and restat-like commands; every fail subset x -k x failure kind; curated diamond / multi-output / fan-in / restat-in-pool shapes; manifests regenerated by a generator step (thorough adds 4-step graphs and pools). The C01 monitor checks on every trace that at each command start every transitive ordering predecessor has finished successfully or never runs in that phase, that no command starts twice in a phase, and that n2 never blocks while a step whose ordering predecessors are done could start (so validation and discovered edges impose no ordering).",
  design_ref="DESIGN.md §3.1, §4 C01",
  note="Assumes scripted commands (effects limited to their outputs, logical mtimes) and cooperative hand-offs between threads: one thread runs at a time, so only completion orders are explored, not preemptions inside n2's own code (Runner's channel protocol is straight-line).",
  technique="stateless exhaustive exploration of completion orders of the real implementation under a controlled (gated) executor, trace monitor against the abstract graph",
 ),
 "C04": dict(
  engine="sched",
  category="model_checking",
  text="Same explorer as C01 on pool-centred scenario families: every assignment of {default, depth-1, depth-2, depth-0, console, undeclared} pools to 3 (thorough 4) steps over three shapes x -j x <=1 failing step, prebuilt pooled graphs under every edit vector with restat-like commands, regenerated manifests that change pool depths or add pools. At every command start the harness's own running set (from start/finish events, independent of n2's counters) must have at most -j members and at most depth members per bounded pool; n2's own running count seen at Runner::wait must equal it; a dirty step naming an undeclared pool must produce an `unknown pool` error and never start. Family PXd adds a step whose command succeeds but leaves an unparsable depfile (a second way out of the Running state). Family PX puts more steps into one bounded pool than its depth next to default-pool steps competing for the -j slots (depth 1-2, -j up to depth+2, three declaration orders). The slot accounting of task::Runner itself (running, can_start_more, tids) is explored under all thread interleavings by the loom:runner job (2 tasks unbounded, 3 tasks with a preemption bound): the number of commands executing (inside run_command) never exceeds the parallelism, whatever way a slot is given back (success, failure, unparsable depfile), and the collector loop neither deadlocks nor ends with tasks unreturned.",
  design_ref="DESIGN.md §4 C04, §14",
  note="Same trusted base as C01. The loom job runs on a scratch copy of the working tree in which `std` is shadowed inside task.rs so that mpsc/thread resolve to loom's types.",
  technique="stateless exhaustive exploration of completion orders under a gated executor, invariant checked at every start; exhaustive thread-interleaving exploration (loom) of the real Runner",
 ),
 "C05": dict(
  engine="sched",
  category="model_checking",
  text="Same explorer on failure families: every non-empty fail subset of 3-step graphs (thorough: all edge kinds, 4-step graphs) x -k in {none,1,2,3} x {fail, fail after writing outputs, interrupt} x -j 1..3, every completion order, plus pools, pooled steps with validation edges to failing steps, failing user commands next to an up-to-date or identically regenerated generator step, and curated shapes with one failing step. Monitors: no start downstream of a failed or interrupted step; no start after the k-th failure or after an interruption; below the budget every wanted step not downstream of a failure is up to date at the end (reference model on the harness's own file table); result is success iff no command failed; and a follow-up all-success invocation must run every failed step again (it was not recorded).",
  design_ref="DESIGN.md §4 C05",
  note="`no -k` is treated as an unlimited budget (what n2 does; --help claims default 1, see DESIGN.md O1). Exit status mapping of the binary itself is checked under C16/C18 (proc).",
  technique="stateless exhaustive exploration of completion orders and failure subsets under a gated executor, trace monitors plus reference model",
 ),
 "C06": dict(
  engine="sched",
  category="model_checking",
  text="Same explorer over all families plus the cycle family: every 2- and 3-step graph with a back edge of each kind (incl. self edges) and each target, validation-closed cycles entered from every side. Every execution has a horizon; a panic (e.g. `BUG: no work to do and runner not running`), a Runner::wait with nothing running, or an exceeded horizon is a violation, a worker abort or hang is attributed to the scenario. With no failing command the result must be success and every wanted step up to date per the reference model; a cycle of ordering edges among the wanted steps must be reported as `dependency cycle: a -> ... -> a` naming a real cycle with zero commands started; a cycle closed only by a validation edge must be accepted.",
  design_ref="DESIGN.md §4 C06",
  note="Termination is decided per execution within the horizon (waits <= 200) and the worker watchdog; livelock without waits shows up as a watchdog kill attributed to the scenario.",
  technique="stateless exhaustive exploration of completion orders under a gated executor, termination/decision monitors",
 ),
 "C18": dict(
  engine="sched",
  category="model_checking",
  text="Same explorer on the target family: 3-step graphs x every target subset x three spellings x {no default, one, two defaults}, names that occur nowhere / only as a source, and regenerated manifests in which a target exists only in the old or only in the new text. Monitors: every started step belongs to the reference closure (explicit, implicit, order-only and validation edges from the named targets, else defaults, else all outputs) of the manifest in effect; every dirty step of the closure is up to date after a successful invocation; a name occurring nowhere in the manifest in effect yields `unknown path requested` with no command started after the regeneration phase.",
  design_ref="DESIGN.md §4 C18",
  note="-C / -f / builddir combinations run through the real binary in the proc engine (separate jobs of this check once built).",
  technique="stateless exhaustive exploration under a gated executor, closure monitor against the abstract graph",
 ),
 "C19": dict(
  engine="sched",
  category="model_checking",
  text="Same explorer with n2's Progress replaced by a recorder: at every Progress::update the state counts and the display's own total are compared with ground truth from the executor: total = number of non-phony steps of the reference wanted set of the phase (and = sum of the per-state counts), running = commands actually in flight, failed = failures so far, done/failed never decrease, done >= successes; task_started/task_finished pair up; the final `ran N` equals the number of successfully completed commands over both phases (also with 10-12 commands running at once). What a terminal user would see is checked too: a real fancy-console state is fed behind the recorder and painted at every update, and the painted status line (`D/T done, F failed, R/Q running`, 40-column bar) must agree with the state counts and with the number of commands actually executing (steps carry hide_success / hide_progress).",
  design_ref="DESIGN.md §4 C19, §14",
  note="The rendered text of the summary line is checked on the real binary by the proc jobs (once built).",
  technique="stateless exhaustive exploration under a gated executor, counters compared with executor ground truth at every update",
 ),

 "C02": dict(
  engine="hist",
  category="model_checking",
  text="Exhaustive walk of the history tree: on a real directory tree with the real loader, log and scheduler (commands scripted), every history of depth 2 (thorough 3) over 8 project templates alternates an edit set (every single edit: touch each source/header, delete or touch each output/intermediate, delete a header, delete a declared source, change what a compiler reports, swap the manifest for each variant / let a generator write each variant; thorough: also compatible pairs in round one) and an invocation (default build, each single target, every completion order at -j2, a build with each failing command and -k1, n2 killed after 1-2 completions with fresh garbage left in the running commands' outputs, n2 dying while appending to the log (the last log write persists only its first half), restat). After every successful invocation every wanted step must be clean in the reference model (an independent implementation of the manifest rule on the harness's own file table) and every output must carry the content tag a from-scratch topological evaluation of the current sources gives; failures must be reported for missing declared sources; after every invocation the log is audited through the loading facade: each step's remembered dependency list must be the one its last recorded run reported (also for every completion order of the all-orders invocation). Header sources live behind symbolic links. A conformance job (proc:conform) plays 83 two-invocation histories both under the scripted executor and through the shipped binary with real shell commands and requires identical run sets and exit status, binding the scripted executor to the real one.",
  design_ref="DESIGN.md §3.2, §3.7, §4 C02",
  note="Assumptions are those of the property (mtime changes with content: logical clock; nothing else writes during a build; no phony aliases as dirtying inputs). Scripted compilers fail when a header they include does not exist; a remembered dependency on a generated file without an ordering path is n2's documented error and accepted as such.",
  technique="exhaustive bounded history exploration of the real implementation against a reference model (clean-build oracle)",
 ),
 "C03": dict(
  engine="hist",
  category="model_checking",
  text="Same history walk as C02, reporting the over-building clauses: every command n2 ran must have been dirty in the reference model at the moment it ran (no record, missing file, changed names/mtimes of dirtying inputs, discovered deps or outputs, changed command or rspfile); an identical invocation right after a successful one must run nothing and return 0 tasks whenever the model calls everything clean; restat must run no command and the following build may run only what the model still calls dirty. Templates include order-only inputs, restat-like commands that leave outputs untouched, subset-then-superset builds and superseded records.",
  design_ref="DESIGN.md §4 C03",
  note="The `no work to do` text itself is checked on the real binary by the proc jobs of C19.",
  technique="exhaustive bounded history exploration against a reference model (run-set oracle)",
 ),
 "C07": dict(
  engine="crash",
  category="fault_enumeration",
  text="Crash-point enumeration on the real log writer: a fault point before every write to .n2_db persists a chosen prefix and kills the invocation. For 9 histories (log creation, append to a loaded log, renumbering manifest edits, new path records, superseded records, -j2, a log longer than the reader's 8 KiB buffer with the crashing appends across the 8192-byte mark) the last build is repeated for every write index and every byte count 0..=len; afterwards the log is inspected through the facade (on a copy of its bytes: opening a log repairs it) (a step has a loaded record iff its record was persisted completely, with the written dependency list), a recovery invocation must run exactly what the reference model calls dirty and succeed with clean-build contents, and a third invocation must be a no-op; the same is demanded when the manifest is replaced by each other variant of the template between the crash and the next invocation (so that records - possibly the torn one - belong to steps that no longer exist), built, edited back and built again. Thorough adds a second crash at every write of the recovery invocation.",
  design_ref="DESIGN.md §3.3, §4 C07",
  note="Crash model: the tail of the write in progress is lost, earlier writes are intact (append-only file, no reordering across writes).",
  technique="exhaustive crash-point and torn-write enumeration with recovery checked against a reference model",
 ),
 "C08": dict(
  engine="hist + dbrt",
  category="model_checking",
  text="(1) dbrt: through a facade onto db::open / Writer::write_build, records of every shape in {1..3 outputs} x {0,1,2,255,256,257,65535,65536,65537 dependencies} x ASCII/UTF-8 names, names of 1..4095 bytes in output and dependency position, and interleaved/superseded records are written, the file is reopened twice against a freshly loaded graph and loaded (hash, deps) must equal what was written (a record the format cannot hold may be dropped but must not disturb anything else). (2) attribution: all 26x26 assignments of three file names to {no step, step 1, step 2} in an old and a new manifest, every output order inside each old statement, several record orders: a record must apply iff all its outputs belong to one new step, latest wins. (3) the history walk of C02 on the templates whose variants reorder statements, add/remove unrelated statements and comments, rename rules, move or drop outputs: no re-run for behaviour-preserving edits, no misapplied record otherwise.",
  design_ref="DESIGN.md §4 C08",
  note="Names longer than 4095 bytes cannot reach the log (stat fails first) and are not generated.",
  technique="exhaustive enumeration of record shapes and manifest re-assignments through the real reader/writer, plus bounded history exploration",
 ),
 "C09": dict(
  engine="hist",
  category="model_checking",
  text="The history walk of C02 restricted to the templates with dependency-reporting commands (depfile and deps=msvc chains, a two-output step with a depfile, an order-only generated header that is also a discovered dependency): the report grows, shrinks, becomes empty, overlaps explicit/implicit inputs (dropped) and order-only inputs (kept), names one file under several spellings, a reported header is deleted; across failed builds, kills and restat. Run sets must equal the reference model's (the last successful report is remembered, replaced wholesale, a vanished dependency makes the step dirty and never fails the build). The /showIncludes filter is enumerated exhaustively under C16; the real binary is run with notes that straddle pipe reads (a note split by a pause, 300 notes at once) and must hide every note and remember every header (proc:msvc); scripted msvc output is delivered in 5-byte chunks.",
  design_ref="DESIGN.md §4 C09",
  note="Ordering neutrality of discovered dependencies is C01's monitor; a discovered dependency on a generated file without ordering path is n2's documented error.",
  technique="exhaustive bounded history exploration against a reference model",
 ),
 "C17": dict(
  engine="hist + sched",
  category="model_checking",
  text="Generator templates (manifest produced by a step whose input is shared with user steps in four ways, default name and -f name): the generator writes one of 8 variants (identical, add step, remove step, change command, rewire edge, lower pool depth, rename target, add pool) or fails; histories of generator-input edits interleaved with builds of default/named targets (hist), and every completion order of the regenerating invocation (sched family R). After a regeneration everything must be indistinguishable from a fresh invocation on the new text (closure, run set, clean-build contents, targets resolved in the new graph only); a failed regeneration runs nothing else and fails; a clean generator does not run and nothing settled in phase one runs twice.",
  design_ref="DESIGN.md §4 C17",
  note="Same trusted base as C01/C02.",
  technique="exhaustive bounded history exploration plus completion-order exploration under a gated executor",
 ),

 "C16": dict(
  engine="proc + inputs/filter",
  category="exploration",
  text="The shipped binary (hooks off) is run with real /bin/sh commands that observe themselves: their argv must be exactly /bin/sh -c <evaluated command> for 14 command strings covering quotes, expansions, redirections, lists, subshells, globs and UTF-8; stdin must be /dev/null; the only inherited descriptors are /dev/null and one pipe (never the log, never another command's pipe); the cwd is the build directory; nested output directories exist and the rspfile holds exactly the evaluated content. Output volumes at every pipe/buffer boundary 0..200000 bytes on stdout, stderr, alternating and from two concurrent commands must appear in n2's output exactly once and contiguously; every exit code 0..255 and every terminating signal must map to success / failure / interruption as stated, with -k 1 stopping the build; -j 1..16 with 2j commands must keep every command's 5 KB block contiguous; a command started while another runs must see only its own pipe and its completion must not wait for the unrelated command; output directories are re-created even if an earlier command of the invocation removed them; /showIncludes notes split across reads are filtered. The /showIncludes filter is enumerated exhaustively over all outputs of <= 7 (8) tokens against a reference filter. `However many commands run at once` is decided for n2's own threads by loom: every interleaving of the real task::Runner (real task threads running the real run_task around a scripted run_command with 0-2 output chunks, hidden progress, failure, interruption, /showIncludes notes; 2 tasks unbounded, 3-4 tasks preemption-bounded) must return every started task from wait exactly once with exactly its bytes, deliver its last-line updates in order before its completion and never for a hidden task; and every interleaving of the fancy console's display thread with the main thread must print each finished task's block and each log line exactly once, contiguously and in order.",
  design_ref="DESIGN.md §3.5, §4 C16, §14",
  note="NOT decided by an exhaustive search: the kernel's interleaving of real children and pipe reads; the -j lattice is an enumeration of configurations, each run once. The loom jobs cover the protocol between n2's own threads on a scratch copy of the working tree with `std` shadowed inside task.rs / progress_fancy.rs (tools/loom_prepare.sh).",
  technique="exhaustive enumeration of a finite configuration lattice on the real binary with self-observing commands; exhaustive input enumeration for the output filter; exhaustive thread-interleaving exploration (loom) of the collector and display threads",
 ),
}

NOT_YET = {}

def main():
    here = os.path.dirname(os.path.dirname(os.path.abspath(__file__)))
    props = [json.loads(l)["id"] for l in open(os.path.join(here, "properties.jsonl"))]
    checks = []
    for pid in props:
        if pid not in CHECKS: continue
        c = CHECKS[pid]
        checks.append({
            "property_id": pid,
            "quick_cmd": "./check %s quick" % pid,
            "thorough_cmd": "./check %s thorough" % pid,
            "evidence_file": "/verif/evidence/%s.json" % pid,
            "replay_cmd_template": "./target/release/n2verif replay {path}",
            "engine": c["engine"],
            "level_claimed": {"category": c["category"], "text": c["text"], "design_ref": c["design_ref"]},
            "level_note": c["note"],
            "technique": c["technique"],
        })
    na = []
    for pid in props:
        if pid in CHECKS: continue
        na.append({"property_id": pid, "reason": NOT_YET.get(pid, "check not built yet in this revision (planned, see DESIGN.md §4); no claim is made")})
    m = {
        "version": 1,
        "setup_cmd": "./setup.sh",
        "hooks": {
            "guard": "cargo feature `verif` of the n2 crate (off by default)",
            "enable": "the harness crate depends on /repo as a path dependency with default-features = false, features = [\"verif\"]; hooks are inert until the harness installs callbacks via n2::verif::install",
            "baseline_off_cmd": "cd /repo && cargo test --workspace --no-fail-fast --offline",
            "source_commits": HOOK_COMMITS,
            "add_only": True,
        },
        "engines": [
            {"name": "n2verif", "path": "/verif/harness", "serves_properties": sorted(CHECKS.keys()), "kind_free_text": "Rust harness: stateless exhaustive exploration of the real n2 code (scripted gated executor, history trees, crash-point enumeration, input enumeration) sharded over worker processes"},
            {"name": "loomh", "path": "/verif/harness/loomh", "serves_properties": ["C04", "C16", "C20"], "kind_free_text": "loom 0.7 harness compiled into a scratch copy of /repo's working tree (tools/loom_prepare.sh): exhaustive, preemption-bounded exploration of all thread interleavings of the real task::Runner and FancyConsoleProgress"},
        ],
        "checks": checks,
        "not_applicable": na,
        "notes": "All checks are subcommands of one binary built by ./check from /repo's working tree; see DESIGN.md. Known findings: /verif/known_findings.txt.",
    }
    json.dump(m, open(os.path.join(here, "MANIFEST.json"), "w"), indent=1)
    print("wrote MANIFEST.json with", len(checks), "checks")

main()
