#!/usr/bin/env python3
"""Regenerates /verif/MANIFEST.json from the table below (kept next to the
checks so that the claimed level, technique and notes are edited in one place)."""
import json, subprocess, os

HOOK_COMMITS = ["beaccff", "1de206f", "b856256"]

CHECKS = {
 "C13": dict(
  engine="inputs/canon + inputs/load",
  category="exploration",
  text="Exhaustive enumeration of every path string up to a length bound over two 5-symbol alphabets (ASCII and multi-byte), plus the 55..63-component boundary family, run through the real canonicalize_path with debug assertions and unsafe-precondition checks on, and compared byte-for-byte with an independent reference component walk; idempotence, no-lengthening, canonical form and same-location are checked on n2's own output. Node identity is checked by loading manifests / resolving targets / reading depfiles for all pairs of spellings of a fixed set of locations. Exhaustive within the bound, which is the right level for a pure function whose bugs are combinatorial in short inputs.",
  design_ref="DESIGN.md §4 C13",
  note="Trusted: the reference walk in harness/vcore/src/refcanon.rs (its unit test replays n2's documented examples). Bound: length <= 9 (quick) / 11 (thorough) over 5 symbols; longer inputs only via the deep-path family.",
  technique="bounded exhaustive input enumeration against a reference model",
 ),
}

NOT_YET = {}

def main():
    here = os.path.dirname(os.path.dirname(os.path.abspath(__file__)))
    props = [json.loads(l)["id"] for l in open(os.path.join(here, "properties.jsonl"))]
    checks = []
    for pid in props:
        if pid not in CHECKS: continue
        c = CHECKS[pid]
        checks.append({
            "property_id": pid,
            "quick_cmd": "./check %s quick" % pid,
            "thorough_cmd": "./check %s thorough" % pid,
            "evidence_file": "/verif/evidence/%s.json" % pid,
            "replay_cmd_template": "./target/release/n2verif replay {path}",
            "engine": c["engine"],
            "level_claimed": {"category": c["category"], "text": c["text"], "design_ref": c["design_ref"]},
            "level_note": c["note"],
            "technique": c["technique"],
        })
    na = []
    for pid in props:
        if pid in CHECKS: continue
        na.append({"property_id": pid, "reason": NOT_YET.get(pid, "check not built yet in this revision (planned, see DESIGN.md §4); no claim is made")})
    m = {
        "version": 1,
        "setup_cmd": "./setup.sh",
        "hooks": {
            "guard": "cargo feature `verif` of the n2 crate (off by default)",
            "enable": "the harness crate depends on /repo as a path dependency with default-features = false, features = [\"verif\"]; hooks are inert until the harness installs callbacks via n2::verif::install",
            "baseline_off_cmd": "cd /repo && cargo test --workspace --no-fail-fast --offline",
            "source_commits": HOOK_COMMITS,
            "add_only": True,
        },
        "engines": [
            {"name": "n2verif", "path": "/verif/harness", "serves_properties": sorted(CHECKS.keys()), "kind_free_text": "Rust harness: stateless exhaustive exploration of the real n2 code (scripted gated executor, history trees, crash-point enumeration, input enumeration) sharded over worker processes"},
        ],
        "checks": checks,
        "not_applicable": na,
        "notes": "All checks are subcommands of one binary built by ./check from /repo's working tree; see DESIGN.md. Known findings: /verif/known_findings.txt.",
    }
    json.dump(m, open(os.path.join(here, "MANIFEST.json"), "w"), indent=1)
    print("wrote MANIFEST.json with", len(checks), "checks")

main()
