#!/usr/bin/env python3
"""Regenerates /verif/MANIFEST.json from the table below (kept next to the
checks so that the claimed level, technique and notes are edited in one place)."""
import json, subprocess, os

HOOK_COMMITS = ["beaccff", "1de206f", "b856256"]

CHECKS = {
 "C13": dict(
  engine="inputs/canon + inputs/load",
  category="exploration",
  text="Exhaustive enumeration of every path string up to a length bound over two 5-symbol alphabets (ASCII and multi-byte), plus the 55..63-component boundary family, run through the real canonicalize_path with debug assertions and unsafe-precondition checks on, and compared byte-for-byte with an independent reference component walk; idempotence, no-lengthening, canonical form and same-location are checked on n2's own output. Node identity is checked by loading manifests / resolving targets / reading depfiles for all pairs of spellings of a fixed set of locations. Exhaustive within the bound, which is the right level for a pure function whose bugs are combinatorial in short inputs.",
  design_ref="DESIGN.md §4 C13",
  note="Trusted: the reference walk in harness/vcore/src/refcanon.rs (its unit test replays n2's documented examples). Bound: length <= 9 (quick) / 11 (thorough) over 5 symbols; longer inputs only via the deep-path family.",
  technique="bounded exhaustive input enumeration against a reference model",
 ),

 "C10": dict(
  engine="inputs/load",
  category="exploration",
  text="Abstract manifests of three families (every presence pattern of the optional sections of a build statement over paths that need every escape; every rule-/build-level placement of the step attributes; every short sequence of statement kinds incl. include/subninja/default/pool/comment/binding) are rendered under the canonical spelling and under every spelling with a bounded number of deviations at the spacing / continuation / `$v`-vs-`${v}` choice points, loaded by the real loader (real include files on tmpfs) and compared field by field with a reference loader and with the canonical spelling's dump. Exhaustive within the stated bounds; the grammar-sized space the property quantifies over is exactly what such an enumeration reaches and hand-written examples do not.",
  design_ref="DESIGN.md §4 C10",
  note="Trusted: the reference loader and speller in harness/vcore/src/refmanifest.rs. Bounds: <=1 deviation (quick) / <=2 (thorough) per manifest, all pairs on a shape subset; statement sequences of length <=2 / <=3.",
  technique="bounded exhaustive input enumeration (abstract manifest x spelling deviations) against a reference loader",
 ),
 "C11": dict(
  engine="inputs/load",
  category="exploration",
  text="Eleven binding slots around one build statement (file-level before/after, redefinition, rule-level, build-block, path piece, child-file binding) are each left absent or filled with one of seven expressions that reference x, y, $in, $out in every direction; every assignment with a bounded number of filled slots is loaded with the statement in the main file, in an included file and in a subninja file, followed by a probe statement in the parent, and the evaluated command/description/paths are compared with an independent evaluator that implements the stated lookup chain literally. Exhaustive within the bound.",
  design_ref="DESIGN.md §4 C11",
  note="Trusted: eval_file/eval_path/eval_rule in refmanifest.rs. Bound: <=4 (quick) / <=5 (thorough) filled slots. One known finding (include does not extend the includer's scope) is listed in known_findings.txt.",
  technique="bounded exhaustive input enumeration against a reference evaluator",
 ),
 "C12": dict(
  engine="inputs/total + inputs/depfile",
  category="exploration",
  text="Totality by exhaustive enumeration with all runtime checks on (debug assertions, overflow checks, unsafe-precondition checks): every short token sequence over a 26-token Ninja alphabet, every short byte string, every single (thorough: double) token mutation and truncation of ~3700 valid manifests, error-column boundary families over 1-4-byte characters, empty expansions in every path position, 58..66-component paths, every short token sequence as an included/subninja'd file on disk incl. include cycles, every short command-line target string, every short depfile string. Each input must load or be rejected with a well-formed diagnostic. Aborts and hangs kill only a worker shard; the parent attributes them to the input through a shared-memory marker and resumes the shard after it.",
  design_ref="DESIGN.md §4 C12",
  note="Trusted: the diagnostic-shape checker. Out-of-bounds reads that no debug assertion or UB check guards are not observable. Bounds: token sequences <=5/6, bytes <=2/3, include content <=3/4 tokens, targets <=6/7, depfile strings <=9/10.",
  technique="bounded exhaustive input enumeration with crash/hang attribution",
 ),
 "C14": dict(
  engine="inputs/load",
  category="exploration",
  text="Every first build statement with 1..3 outputs over six spellings of three locations at every explicit/implicit split, alone and followed by every second statement with 1..2 outputs (same file, included file, or subninja'd before it) and a third statement, is loaded; the reference loader says whether two statements produce one location (then the error must cite both statement locations) or not (then the graph must have unique outputs, a consistent explicit count, and a warning exactly when an output repeats). Exhaustive within the bound.",
  design_ref="DESIGN.md §4 C14",
  note="Trusted: refmanifest.rs add_build and refcanon.rs. Stdout of the loader is captured to observe the warning.",
  technique="bounded exhaustive input enumeration against a reference loader",
 ),
 "C15": dict(
  engine="inputs/depfile",
  category="exploration",
  text="Abstract depfiles (up to 3 entries, up to 3 prerequisites incl. Windows-style paths) under every formatting or every formatting with a bounded number of deviations (spaces before the colon, gaps, backslash-newline continuations, blank lines, trailing blanks, final newline) are written to a real file and read by the real read_depfile; the result must be exactly the listed prerequisites in order. All strings up to a length bound over {a,space,:,\\,newline} and a NUL/CR/UTF-8 alphabet are checked for totality, diagnostic shape and that every reported word is a blank-free piece of the input; through the file path, errors must name the depfile.",
  design_ref="DESIGN.md §4 C15",
  note="Trusted: the formatting generator in refdepfile.rs. Bounds: <=2/3 formatting deviations for multi-entry files, strings <=9/10.",
  technique="bounded exhaustive input enumeration (abstract depfile x formattings) against the abstract content",
 ),
 "C20": dict(
  engine="inputs/render",
  category="exploration",
  text="The render helpers of the fancy progress display are called for every terminal width 10..300, 15 elapsed times across every digit count, messages that place a 1/2/3/4-byte character at every offset around the cut index, every short string over {a,é,€,😀}, every alignment for truncate, every count vector up to a bound for progress_bar, and whole frames through the real print_progress at forced widths; the result must not panic, must stay within the width at a character boundary and the bar must have its nominal width. Exhaustive within the bounds, which cover every residue of the byte arithmetic involved.",
  design_ref="DESIGN.md §4 C20",
  note="Not covered: the Mutex/Condvar/timeout protocol of the display thread (not modelled by loom); the consequence of a render panic for the build is argued from the code (the helpers are the only fallible code on that thread).",
  technique="bounded exhaustive input enumeration with invariant oracle",
 ),
}

NOT_YET = {}

def main():
    here = os.path.dirname(os.path.dirname(os.path.abspath(__file__)))
    props = [json.loads(l)["id"] for l in open(os.path.join(here, "properties.jsonl"))]
    checks = []
    for pid in props:
        if pid not in CHECKS: continue
        c = CHECKS[pid]
        checks.append({
            "property_id": pid,
            "quick_cmd": "./check %s quick" % pid,
            "thorough_cmd": "./check %s thorough" % pid,
            "evidence_file": "/verif/evidence/%s.json" % pid,
            "replay_cmd_template": "./target/release/n2verif replay {path}",
            "engine": c["engine"],
            "level_claimed": {"category": c["category"], "text": c["text"], "design_ref": c["design_ref"]},
            "level_note": c["note"],
            "technique": c["technique"],
        })
    na = []
    for pid in props:
        if pid in CHECKS: continue
        na.append({"property_id": pid, "reason": NOT_YET.get(pid, "check not built yet in this revision (planned, see DESIGN.md §4); no claim is made")})
    m = {
        "version": 1,
        "setup_cmd": "./setup.sh",
        "hooks": {
            "guard": "cargo feature `verif` of the n2 crate (off by default)",
            "enable": "the harness crate depends on /repo as a path dependency with default-features = false, features = [\"verif\"]; hooks are inert until the harness installs callbacks via n2::verif::install",
            "baseline_off_cmd": "cd /repo && cargo test --workspace --no-fail-fast --offline",
            "source_commits": HOOK_COMMITS,
            "add_only": True,
        },
        "engines": [
            {"name": "n2verif", "path": "/verif/harness", "serves_properties": sorted(CHECKS.keys()), "kind_free_text": "Rust harness: stateless exhaustive exploration of the real n2 code (scripted gated executor, history trees, crash-point enumeration, input enumeration) sharded over worker processes"},
        ],
        "checks": checks,
        "not_applicable": na,
        "notes": "All checks are subcommands of one binary built by ./check from /repo's working tree; see DESIGN.md. Known findings: /verif/known_findings.txt.",
    }
    json.dump(m, open(os.path.join(here, "MANIFEST.json"), "w"), indent=1)
    print("wrote MANIFEST.json with", len(checks), "checks")

main()
