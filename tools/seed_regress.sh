#!/bin/bash
# tools/seed_regress.sh [tier] [ids...]: runs every seeded change against the check of
# the property it targets and prints DETECTED / MISSED per change.
tier=${1:-quick}; shift
cd /verif
ids="$@"; [ -z "$ids" ] && ids=$(ls seeded | grep -E '^C[0-9]+-')
for id in $ids; do
  prop=${id%%-*}
  out=$(tools/try_seed.sh /verif/seeded/$id/patch.diff $tier $prop 2>&1)
  if echo "$out" | grep -aq "^VIOLATION property=$prop"; then echo "DETECTED $id"; 
  elif echo "$out" | grep -aq "APPLY-FAILED"; then echo "APPLY-FAILED $id";
  else echo "MISSED $id"; echo "$out" | tail -3 | cut -c1-200; fi
done
