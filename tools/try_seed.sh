#!/bin/sh
# tools/try_seed.sh <patch.diff> <tier> <ID>...
# Applies a seeded change to /repo, runs the given checks, reverts the change.
patch="$1"; tier="$2"; shift 2
cd /repo || exit 2
git diff --quiet || { echo "/repo has uncommitted changes"; exit 2; }
git apply -3 "$patch" 2>/dev/null || git apply "$patch" || { echo "APPLY-FAILED $patch"; git checkout -- . ; exit 2; }
cd /verif
for id in "$@"; do
  out=$(./check "$id" "$tier" 2>&1); code=$?
  echo "== $patch $id exit=$code"
  echo "$out" | grep -aE "^(VIOLATION|KNOWN-FINDING|MACHINERY|CAP|--- )" | cut -c1-300 | head -12
  echo "$out" | tail -1 | cut -c1-300
done
cd /repo && git reset -q && git checkout -- . && git status --short | head -3
