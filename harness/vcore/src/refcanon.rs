//! Reference path canonicaliser: a plain component walk, written from the
//! statement of C13 (remove `.`, empty and `name/..` components, keep leading
//! `..` and the root, keep every surviving component's own separator).

fn is_sep(c: u8) -> bool {
    c == b'/' || c == b'\\'
}

/// One surviving component together with the separator that followed it in
/// the source (if any).
#[derive(Debug, Clone, PartialEq, Eq, Hash)]
pub struct Elem {
    pub name: Vec<u8>,
    pub dotdot: bool,
    pub sep: Option<u8>,
}

#[derive(Debug, Clone, PartialEq, Eq, Hash)]
pub struct Resolved {
    pub root: Option<u8>,
    pub elems: Vec<Elem>,
}

/// The location a path denotes, independent of separator spelling: rooted
/// flag, number of leading `..`, names, and whether the spelling ends in a
/// separator after its last surviving component.
#[derive(Debug, Clone, PartialEq, Eq, Hash, PartialOrd, Ord)]
pub struct Location {
    pub rooted: bool,
    pub updirs: usize,
    pub names: Vec<Vec<u8>>,
    pub trailing: bool,
}

pub fn resolve(path: &[u8]) -> Resolved {
    let mut i = 0;
    let mut root = None;
    if let Some(&c) = path.first() {
        if is_sep(c) {
            root = Some(c);
            i = 1;
        }
    }
    let mut elems: Vec<Elem> = Vec::new();
    while i < path.len() {
        // Read one component and the separator after it.
        let start = i;
        while i < path.len() && !is_sep(path[i]) {
            i += 1;
        }
        let comp = &path[start..i];
        let sep = if i < path.len() {
            let s = path[i];
            i += 1;
            Some(s)
        } else {
            None
        };
        if comp.is_empty() || comp == b"." {
            continue;
        }
        if comp == b".." {
            match elems.last() {
                Some(e) if !e.dotdot => {
                    elems.pop();
                }
                _ => elems.push(Elem {
                    name: comp.to_vec(),
                    dotdot: true,
                    sep,
                }),
            }
            continue;
        }
        elems.push(Elem {
            name: comp.to_vec(),
            dotdot: false,
            sep,
        });
    }
    Resolved { root, elems }
}

impl Resolved {
    pub fn render(&self) -> Vec<u8> {
        let mut out = Vec::new();
        if let Some(r) = self.root {
            out.push(r);
        }
        for e in &self.elems {
            out.extend_from_slice(&e.name);
            if let Some(s) = e.sep {
                out.push(s);
            }
        }
        if out.is_empty() {
            out.push(b'.');
        }
        out
    }

    pub fn location(&self) -> Location {
        Location {
            rooted: self.root.is_some(),
            updirs: self.elems.iter().filter(|e| e.dotdot).count(),
            names: self
                .elems
                .iter()
                .filter(|e| !e.dotdot)
                .map(|e| e.name.clone())
                .collect(),
            trailing: self.elems.last().map(|e| e.sep.is_some()).unwrap_or(false),
        }
    }

    /// Maximal number of names simultaneously held while walking; n2 supports
    /// up to 60.
    pub fn depth_needed(path: &[u8]) -> usize {
        let mut depth = 0usize;
        let mut max = 0usize;
        for comp in path.split(|&c| is_sep(c)) {
            if comp.is_empty() || comp == b"." {
                continue;
            }
            if comp == b".." {
                depth = depth.saturating_sub(1);
            } else {
                depth += 1;
                max = max.max(depth);
            }
        }
        max
    }
}

pub fn canon(path: &[u8]) -> Vec<u8> {
    resolve(path).render()
}

/// Number of components (separated pieces that are non-empty).
pub fn component_count(path: &[u8]) -> usize {
    path.split(|&c| is_sep(c)).filter(|c| !c.is_empty()).count()
}

/// Checks the structural clauses of C13 on a canonical result; returns the
/// name of the violated clause.
pub fn check_canonical_form(orig: &[u8], out: &[u8]) -> Option<&'static str> {
    if out.len() > orig.len() {
        return Some("lengthened");
    }
    if out.is_empty() {
        return Some("empty result");
    }
    if out == b"." {
        return None;
    }
    let rooted_in = orig.first().map(|&c| is_sep(c)).unwrap_or(false);
    let rooted_out = is_sep(out[0]);
    if rooted_in != rooted_out {
        return Some("root not preserved");
    }
    let body = if rooted_out { &out[1..] } else { out };
    let comps: Vec<&[u8]> = body.split(|&c| is_sep(c)).collect();
    let mut seen_name = false;
    for (i, c) in comps.iter().enumerate() {
        let last = i + 1 == comps.len();
        if c.is_empty() {
            if last {
                continue; // trailing separator
            }
            return Some("empty component kept");
        }
        if *c == b"." {
            return Some("dot component kept");
        }
        if *c == b".." {
            if seen_name {
                return Some("name/.. kept");
            }
            continue;
        }
        seen_name = true;
    }
    None
}

#[cfg(test)]
mod tests {
    use super::*;
    fn c(s: &str) -> String {
        String::from_utf8(canon(s.as_bytes())).unwrap()
    }
    #[test]
    fn matches_documented_examples() {
        for (a, b) in [
            ("foo", "foo"),
            ("foo/bar", "foo/bar"),
            ("./foo", "foo"),
            ("foo/.", "foo/"),
            ("foo/./bar", "foo/bar"),
            ("./", "."),
            ("./.", "."),
            ("././", "."),
            (".", "."),
            ("t/.hidden", "t/.hidden"),
            ("t/.._lib.c.o", "t/.._lib.c.o"),
            ("/foo", "/foo"),
            ("foo//bar", "foo/bar"),
            ("foo/../bar", "bar"),
            ("/foo/../bar", "/bar"),
            ("../foo", "../foo"),
            ("../foo/../bar", "../bar"),
            ("../../bar", "../../bar"),
            ("./../foo", "../foo"),
            ("foo/..", "."),
            ("foo/../", "."),
            ("foo/../../", "../"),
            ("foo/../../bar", "../bar"),
        ] {
            assert_eq!(c(a), b, "{}", a);
            assert_eq!(c(&a.replace('/', "\\")), b.replace('/', "\\"), "{}", a);
        }
    }
}
