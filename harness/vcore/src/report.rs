//! Result types passed from worker processes to the parent, evidence writer,
//! known-findings file.

use serde_json::{json, Map, Value};
use std::collections::BTreeMap;

#[derive(Debug, Clone)]
pub struct Violation {
    /// Classification of the failure: which clause failed and at which site or
    /// shape.  Known findings are matched on this.
    pub key: String,
    /// Human-readable explanation.
    pub detail: String,
    /// Everything needed to re-run exactly this case.
    pub replay: Value,
}

#[derive(Debug, Default, Clone)]
pub struct ShardResult {
    /// Cases generated / executions run.
    pub evaluations: u64,
    /// Cases that are non-trivial by the engine's stated rule.
    pub nontrivial: u64,
    /// Explorer nodes (for explorations over choice trees).
    pub states: u64,
    pub transitions: u64,
    pub max_depth: u64,
    /// Additive named counters (vacuity guards etc).
    pub counters: BTreeMap<String, u64>,
    /// Observed outcome classes with the number of cases in each.
    pub outcomes: BTreeMap<String, u64>,
    pub samples: Vec<Value>,
    pub violations: Vec<Violation>,
    /// Total number of violating cases (violations is capped).
    pub violation_count: u64,
    pub caps: Vec<String>,
}

pub const MAX_VIOLATIONS_KEPT: usize = 40;
pub const MAX_SAMPLES_KEPT: usize = 6;

impl ShardResult {
    pub fn count(&mut self, name: &str, n: u64) {
        *self.counters.entry(name.to_string()).or_insert(0) += n;
    }
    pub fn outcome(&mut self, name: &str) {
        if let Some(v) = self.outcomes.get_mut(name) {
            *v += 1;
        } else {
            self.outcomes.insert(name.to_string(), 1);
        }
    }
    pub fn sample(&mut self, v: impl FnOnce() -> Value) {
        if self.samples.len() < MAX_SAMPLES_KEPT {
            self.samples.push(v());
        }
    }
    /// Records a violation; keeps at most a few per key so that one noisy
    /// class cannot hide others.
    pub fn violation(&mut self, key: &str, detail: impl FnOnce() -> String, replay: impl FnOnce() -> Value) {
        self.violation_count += 1;
        *self.counters.entry(format!("violation:{}", key)).or_insert(0) += 1;
        let same = self.violations.iter().filter(|v| v.key == key).count();
        if same < 2 && self.violations.len() < MAX_VIOLATIONS_KEPT {
            self.violations.push(Violation {
                key: key.to_string(),
                detail: detail(),
                replay: replay(),
            });
        }
    }

    pub fn merge(&mut self, o: ShardResult) {
        self.evaluations += o.evaluations;
        self.nontrivial += o.nontrivial;
        self.states += o.states;
        self.transitions += o.transitions;
        self.max_depth = self.max_depth.max(o.max_depth);
        for (k, v) in o.counters {
            *self.counters.entry(k).or_insert(0) += v;
        }
        for (k, v) in o.outcomes {
            *self.outcomes.entry(k).or_insert(0) += v;
        }
        for s in o.samples {
            if self.samples.len() < MAX_SAMPLES_KEPT {
                self.samples.push(s);
            }
        }
        self.violation_count += o.violation_count;
        for v in o.violations {
            let same = self.violations.iter().filter(|x| x.key == v.key).count();
            if same < 2 && self.violations.len() < MAX_VIOLATIONS_KEPT {
                self.violations.push(v);
            }
        }
        self.caps.extend(o.caps);
    }

    pub fn to_json(&self) -> Value {
        json!({
            "evaluations": self.evaluations,
            "nontrivial": self.nontrivial,
            "states": self.states,
            "transitions": self.transitions,
            "max_depth": self.max_depth,
            "counters": self.counters,
            "outcomes": self.outcomes,
            "samples": self.samples,
            "violation_count": self.violation_count,
            "violations": self.violations.iter().map(|v| json!({"key": v.key, "detail": v.detail, "replay": v.replay})).collect::<Vec<_>>(),
            "caps": self.caps,
        })
    }

    pub fn from_json(v: &Value) -> Option<ShardResult> {
        let mut r = ShardResult::default();
        r.evaluations = v.get("evaluations")?.as_u64()?;
        r.nontrivial = v.get("nontrivial")?.as_u64()?;
        r.states = v.get("states")?.as_u64()?;
        r.transitions = v.get("transitions")?.as_u64()?;
        r.max_depth = v.get("max_depth")?.as_u64()?;
        for (k, x) in v.get("counters")?.as_object()? {
            r.counters.insert(k.clone(), x.as_u64()?);
        }
        for (k, x) in v.get("outcomes")?.as_object()? {
            r.outcomes.insert(k.clone(), x.as_u64()?);
        }
        r.samples = v.get("samples")?.as_array()?.clone();
        r.violation_count = v.get("violation_count")?.as_u64()?;
        for x in v.get("violations")?.as_array()? {
            r.violations.push(Violation {
                key: x.get("key")?.as_str()?.to_string(),
                detail: x.get("detail")?.as_str()?.to_string(),
                replay: x.get("replay")?.clone(),
            });
        }
        for x in v.get("caps")?.as_array()? {
            r.caps.push(x.as_str()?.to_string());
        }
        Some(r)
    }
}

/// One line of known_findings.txt.
#[derive(Debug, Clone)]
pub struct KnownEntry {
    pub fixed: bool,
    pub property: String,
    /// For `known:` lines, the violation key (prefix match on the violation's
    /// key); for `fixed:` lines the commit id.
    pub key: String,
    pub text: String,
}

/// Format:
///   known: property=<id> key=<key> <what fails>
///   fixed: property=<id> <commit> <what failed>
pub fn parse_known_findings(text: &str) -> Vec<KnownEntry> {
    let mut out = Vec::new();
    for line in text.lines() {
        let line = line.trim();
        if line.is_empty() || line.starts_with('#') {
            continue;
        }
        let (fixed, rest) = if let Some(r) = line.strip_prefix("known:") {
            (false, r.trim())
        } else if let Some(r) = line.strip_prefix("fixed:") {
            (true, r.trim())
        } else {
            continue;
        };
        let mut it = rest.splitn(3, ' ');
        let prop = it.next().unwrap_or("");
        let second = it.next().unwrap_or("");
        let text = it.next().unwrap_or("").to_string();
        let property = prop.strip_prefix("property=").unwrap_or("").to_string();
        let key = if fixed {
            second.to_string()
        } else {
            second.strip_prefix("key=").unwrap_or("").to_string()
        };
        out.push(KnownEntry {
            fixed,
            property,
            key,
            text,
        });
    }
    out
}

/// Builds the evidence JSON object.
pub struct Evidence<'a> {
    pub property: &'a str,
    pub tier: &'a str,
    pub seed: i64,
    pub level: &'a str,
    pub rule: &'a str,
    pub exhaustive: bool,
    pub assumptions: Vec<String>,
    pub wall_s: f64,
    pub result: &'a ShardResult,
    /// Violations not covered by a known finding.
    pub new_violations: u64,
    pub known_hits: Vec<(String, u64)>,
    pub extra: Map<String, Value>,
}

impl<'a> Evidence<'a> {
    pub fn to_json(&self) -> Value {
        let r = self.result;
        let mut cov = Map::new();
        cov.insert("evaluations".into(), json!(r.evaluations));
        cov.insert("distinct_nontrivial".into(), json!(r.nontrivial));
        cov.insert("rule".into(), json!(self.rule));
        cov.insert("samples".into(), json!(r.samples));
        cov.insert("exhaustive".into(), json!(self.exhaustive && r.caps.is_empty()));
        if self.level == "model_checking" {
            cov.insert("states".into(), json!(r.states));
            cov.insert("transitions".into(), json!(r.transitions));
            // Every execution runs the implementation itself and is compared
            // with the reference model, so every trace is validated.
            cov.insert("traces_validated_against_impl".into(), json!(r.evaluations));
            cov.insert("max_depth".into(), json!(r.max_depth));
        }
        cov.insert("distinct_outcomes".into(), json!(r.outcomes.len()));
        cov.insert("outcomes".into(), json!(r.outcomes));
        cov.insert("counters".into(), json!(r.counters));
        cov.insert("caps_hit".into(), json!(r.caps));
        cov.insert(
            "known_findings_hit".into(),
            json!(self
                .known_hits
                .iter()
                .map(|(k, n)| json!({"key": k, "cases": n}))
                .collect::<Vec<_>>()),
        );
        for (k, v) in &self.extra {
            cov.insert(k.clone(), v.clone());
        }
        json!({
            "property_id": self.property,
            "tier": self.tier,
            "seed": self.seed,
            "level": self.level,
            "coverage": Value::Object(cov),
            "assumptions": self.assumptions,
            "wall_s": self.wall_s,
            "violations": self.new_violations,
        })
    }
}
