//! Abstract depfiles and all their concrete formattings (C15).

use crate::enumerate::{for_deviations, for_product};

#[derive(Debug, Clone, PartialEq, Eq)]
pub struct AbstractDepfile {
    pub entries: Vec<(String, Vec<String>)>,
}

impl AbstractDepfile {
    /// The dependencies n2 must discover: all prerequisites, in order.
    pub fn expected(&self) -> Vec<String> {
        self.entries
            .iter()
            .flat_map(|(_, p)| p.iter().cloned())
            .collect()
    }
    pub fn has_repeated_target(&self) -> bool {
        for (i, (t, _)) in self.entries.iter().enumerate() {
            if self.entries[..i].iter().any(|(u, _)| u == t) {
                return true;
            }
        }
        false
    }
}

pub const TARGETS: &[&str] = &["o.o", "d/p.o", "C:/w.o"];
pub const PREREQS: &[&str] = &["a", "b/c.h", "C:/x", "d\\e"];

const PRE_COLON: &[&str] = &["", " ", "  "];
/// Gap before a prerequisite (after the colon or after another prerequisite).
const GAP: &[&str] = &[" ", "  ", " \\\n  ", "\\\n ", " \\\n \\\n  ", "\\\n\\\n "];
/// What follows the last word of an entry, before the newline.
const TRAIL: &[&str] = &["", " ", "  "];
const BETWEEN: &[&str] = &["\n", "\n\n", "\n  \n"];
const LEAD: &[&str] = &["", "\n", "  \n"];
const FINAL: &[&str] = &["\n", "", "\n\n", "\n   \n"];

/// The formatting choice points of an abstract depfile, as radices.
pub fn format_radices(d: &AbstractDepfile) -> Vec<usize> {
    let mut r = vec![LEAD.len()];
    for (i, (_, prereqs)) in d.entries.iter().enumerate() {
        r.push(PRE_COLON.len());
        for _ in prereqs {
            r.push(GAP.len());
        }
        r.push(TRAIL.len());
        if i + 1 < d.entries.len() {
            r.push(BETWEEN.len());
        }
    }
    r.push(FINAL.len());
    r
}

pub fn format(d: &AbstractDepfile, choice: &[usize]) -> String {
    let mut it = choice.iter().copied();
    let mut next = || it.next().expect("choice vector too short");
    let mut s = String::new();
    s.push_str(LEAD[next()]);
    for (i, (target, prereqs)) in d.entries.iter().enumerate() {
        s.push_str(target);
        s.push_str(PRE_COLON[next()]);
        s.push(':');
        for p in prereqs {
            s.push_str(GAP[next()]);
            s.push_str(p);
        }
        s.push_str(TRAIL[next()]);
        if i + 1 < d.entries.len() {
            s.push_str(BETWEEN[next()]);
        }
    }
    s.push_str(FINAL[next()]);
    s
}

/// All abstract depfiles with `1..=max_entries` entries of `0..=max_prereqs`
/// prerequisites.  Targets are pairwise distinct unless `allow_repeat`.
pub fn abstract_depfiles(
    max_entries: usize,
    max_prereqs: usize,
    allow_repeat: bool,
) -> Vec<AbstractDepfile> {
    // All prerequisite lists.
    let mut lists: Vec<Vec<String>> = vec![vec![]];
    let mut frontier: Vec<Vec<String>> = vec![vec![]];
    for _ in 0..max_prereqs {
        let mut next = Vec::new();
        for l in &frontier {
            for p in PREREQS {
                let mut n = l.clone();
                n.push(p.to_string());
                next.push(n);
            }
        }
        lists.extend(next.iter().cloned());
        frontier = next;
    }
    let mut out = Vec::new();
    fn rec(
        lists: &[Vec<String>],
        max_entries: usize,
        allow_repeat: bool,
        cur: &mut Vec<(String, Vec<String>)>,
        out: &mut Vec<AbstractDepfile>,
    ) {
        if !cur.is_empty() {
            out.push(AbstractDepfile {
                entries: cur.clone(),
            });
        }
        if cur.len() == max_entries {
            return;
        }
        for t in TARGETS {
            if !allow_repeat && cur.iter().any(|(u, _)| u == t) {
                continue;
            }
            for l in lists {
                cur.push((t.to_string(), l.clone()));
                rec(lists, max_entries, allow_repeat, cur, out);
                cur.pop();
            }
        }
    }
    rec(&lists, max_entries, allow_repeat, &mut Vec::new(), &mut out);
    out
}

/// Calls `f` with every formatting of `d`: the full product when `max_dev` is
/// None, else all formattings with at most that many non-canonical choices.
pub fn for_formats(d: &AbstractDepfile, max_dev: Option<usize>, f: &mut dyn FnMut(&[usize], &str)) {
    let radices = format_radices(d);
    let mut g = |c: &[usize]| {
        let text = format(d, c);
        f(c, &text);
    };
    match max_dev {
        None => for_product(&radices, &mut g),
        Some(k) => for_deviations(&radices, k, &mut g),
    }
}

/// Reference recogniser for the plain core of the depfile grammar, used on the
/// exhaustive string enumeration: words are runs of `a`, an entry is
/// `word blank* ':' (sep word)* blank* (newline | end)` with
/// `sep = (blank | backslash-newline)+`, entries may be separated by lines
/// holding only blanks.  Returns the prerequisites of all entries in order, or
/// None when the text is outside this core (then only totality is demanded).
pub fn recognise_plain(text: &[u8]) -> Option<Vec<Vec<String>>> {
    let n = text.len();
    let mut i = 0usize;
    let mut entries: Vec<Vec<String>> = Vec::new();
    let word = |i: &mut usize| -> Option<String> {
        let s = *i;
        while *i < n && text[*i] == b'a' {
            *i += 1;
        }
        if *i > s {
            Some("a".repeat(*i - s))
        } else {
            None
        }
    };
    while i < n {
        // blank-only line
        let mut j = i;
        while j < n && text[j] == b' ' {
            j += 1;
        }
        if j < n && text[j] == b'\n' {
            i = j + 1;
            continue;
        }
        if j == n {
            // trailing blanks without newline: outside the core unless nothing at all follows
            return if j == i { Some(entries) } else { None };
        }
        if j != i {
            return None; // indented target
        }
        word(&mut i)?;
        while i < n && text[i] == b' ' {
            i += 1;
        }
        if i >= n || text[i] != b':' {
            return None;
        }
        i += 1;
        let mut deps = Vec::new();
        loop {
            // separator: blanks and continuations
            let s = i;
            let mut saw_cont = false;
            loop {
                if i < n && text[i] == b' ' {
                    i += 1;
                } else if i + 1 < n && text[i] == b'\\' && text[i + 1] == b'\n' {
                    i += 2;
                    saw_cont = true;
                } else {
                    break;
                }
            }
            if i >= n {
                if saw_cont {
                    return None; // continuation into the end of file
                }
                break;
            }
            if text[i] == b'\n' {
                if saw_cont {
                    return None; // continuation followed by an empty line
                }
                i += 1;
                break;
            }
            if i == s {
                return None; // word glued to the colon or to another token
            }
            let w = word(&mut i)?;
            deps.push(w);
        }
        entries.push(deps);
    }
    Some(entries)
}
