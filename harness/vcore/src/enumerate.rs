//! Exhaustive enumerators over small finite spaces.  All are index-addressable
//! or odometer style so that work can be sharded by index range.

/// Number of strings of length exactly `len` over `k` symbols.
pub fn pow(k: u64, len: u32) -> u64 {
    k.checked_pow(len).expect("space too large")
}

/// Number of strings of length `min..=max` over `k` symbols.
pub fn count_upto(k: u64, min: u32, max: u32) -> u64 {
    (min..=max).map(|l| pow(k, l)).sum()
}

/// Decodes index `idx` (0-based) into the `idx`-th symbol sequence of length
/// `min..=max` over `k` symbols, shortest first, lexicographic within a length.
pub fn decode_upto(k: u64, min: u32, max: u32, mut idx: u64, out: &mut Vec<u8>) {
    out.clear();
    let mut len = min;
    loop {
        let n = pow(k, len);
        if idx < n {
            break;
        }
        idx -= n;
        len += 1;
        assert!(len <= max, "index out of range");
    }
    out.resize(len as usize, 0);
    for i in (0..len as usize).rev() {
        out[i] = (idx % k) as u8;
        idx /= k;
    }
}

/// Advances a symbol sequence to its successor in the order of `decode_upto`.
/// Returns false when the sequence of maximal length wrapped around.
pub fn advance(k: u64, max: u32, seq: &mut Vec<u8>) -> bool {
    for i in (0..seq.len()).rev() {
        if (seq[i] as u64) + 1 < k {
            seq[i] += 1;
            return true;
        }
        seq[i] = 0;
    }
    if (seq.len() as u32) < max {
        seq.push(0);
        // all zeros of the new length
        true
    } else {
        false
    }
}

/// Calls `f` on every symbol sequence with index in `lo..hi`.
pub fn for_range(k: u64, min: u32, max: u32, lo: u64, hi: u64, mut f: impl FnMut(u64, &[u8])) {
    if lo >= hi {
        return;
    }
    let mut seq = Vec::new();
    decode_upto(k, min, max, lo, &mut seq);
    let mut idx = lo;
    loop {
        f(idx, &seq);
        idx += 1;
        if idx >= hi {
            break;
        }
        if !advance(k, max, &mut seq) {
            break;
        }
    }
}

/// Splits `0..total` into shard `i` of `n`, contiguous ranges.
pub fn shard_range(total: u64, i: u64, n: u64) -> (u64, u64) {
    let lo = total * i / n;
    let hi = total * (i + 1) / n;
    (lo, hi)
}

/// All permutations of 0..n in lexicographic order.
pub fn permutations(n: usize) -> Vec<Vec<usize>> {
    fn rec(n: usize, cur: &mut Vec<usize>, used: &mut Vec<bool>, out: &mut Vec<Vec<usize>>) {
        if cur.len() == n {
            out.push(cur.clone());
            return;
        }
        for i in 0..n {
            if !used[i] {
                used[i] = true;
                cur.push(i);
                rec(n, cur, used, out);
                cur.pop();
                used[i] = false;
            }
        }
    }
    let mut out = Vec::new();
    rec(n, &mut Vec::new(), &mut vec![false; n], &mut out);
    out
}

pub fn factorial(n: usize) -> usize {
    (1..=n).product()
}

/// Mixed-radix decode: index -> digits with the given radices (first digit most
/// significant).
pub fn mixed_decode(mut idx: u64, radices: &[u64]) -> Vec<u64> {
    let mut out = vec![0; radices.len()];
    for i in (0..radices.len()).rev() {
        out[i] = idx % radices[i];
        idx /= radices[i];
    }
    assert!(idx == 0, "index out of range");
    out
}

pub fn mixed_count(radices: &[u64]) -> u64 {
    radices.iter().product()
}

/// FNV-1a, for cheap stable hashing of traces and cases.
#[derive(Clone, Copy)]
pub struct Fnv(pub u64);
impl Default for Fnv {
    fn default() -> Self {
        Fnv(0xcbf29ce484222325)
    }
}
impl Fnv {
    pub fn bytes(&mut self, b: &[u8]) {
        for &c in b {
            self.0 ^= c as u64;
            self.0 = self.0.wrapping_mul(0x100000001b3);
        }
    }
    pub fn u64(&mut self, v: u64) {
        self.bytes(&v.to_le_bytes());
    }
    pub fn str(&mut self, s: &str) {
        self.bytes(s.as_bytes());
        self.bytes(&[0xff]);
    }
}

#[cfg(test)]
mod tests {
    use super::*;
    #[test]
    fn roundtrip() {
        let total = count_upto(3, 1, 4);
        let mut seen = Vec::new();
        for_range(3, 1, 4, 0, total, |i, s| {
            let mut d = Vec::new();
            decode_upto(3, 1, 4, i, &mut d);
            assert_eq!(d, s);
            seen.push(s.to_vec());
        });
        assert_eq!(seen.len() as u64, total);
        seen.dedup();
        assert_eq!(seen.len() as u64, total);
    }
}

/// Calls `f` on every choice vector over the given radices (choice 0 is the
/// canonical one) that has at most `max_dev` non-zero entries.  Vectors with
/// fewer deviations come first.
pub fn for_deviations(radices: &[usize], max_dev: usize, f: &mut dyn FnMut(&[usize])) {
    fn rec(
        radices: &[usize],
        start: usize,
        left: usize,
        cur: &mut Vec<usize>,
        f: &mut dyn FnMut(&[usize]),
    ) {
        if left == 0 {
            f(cur);
            return;
        }
        for i in start..radices.len() {
            for c in 1..radices[i] {
                cur[i] = c;
                rec(radices, i + 1, left - 1, cur, f);
            }
            cur[i] = 0;
        }
    }
    let mut cur = vec![0; radices.len()];
    for d in 0..=max_dev.min(radices.len()) {
        rec(radices, 0, d, &mut cur, f);
    }
}

/// Calls `f` on the full product of the radices.
pub fn for_product(radices: &[usize], f: &mut dyn FnMut(&[usize])) {
    let mut cur = vec![0; radices.len()];
    if radices.iter().any(|&r| r == 0) {
        return;
    }
    loop {
        f(&cur);
        let mut i = radices.len();
        loop {
            if i == 0 {
                return;
            }
            i -= 1;
            cur[i] += 1;
            if cur[i] < radices[i] {
                break;
            }
            cur[i] = 0;
        }
    }
}
