//! RefBuild: a small reference model of n2's up-to-date logic, written from
//! the statements of C02/C03/C08/C09 (see DESIGN.md §3.7).  It never reads
//! anything back from n2: the file table is mirrored from the harness's own
//! edits and command effects.

use crate::project::{Project, Step};
use crate::refcanon;
use std::collections::BTreeMap;

#[derive(Debug, Clone, Copy, PartialEq, Eq)]
pub struct FileInfo {
    /// Logical modification time.
    pub mtime: u64,
    /// Content tag.
    pub tag: u64,
}

#[derive(Debug, Clone, PartialEq, Eq, Default)]
pub struct Signature {
    pub ins: Vec<(String, u64)>,
    pub deps: Vec<(String, u64)>,
    pub cmd: String,
    pub rsp: Option<(String, String)>,
    pub outs: Vec<(String, u64)>,
}

#[derive(Debug, Clone, PartialEq, Eq)]
pub struct Record {
    pub outs: Vec<String>,
    pub deps: Vec<String>,
    pub sig: Signature,
}

#[derive(Debug, Clone, Default)]
pub struct Model {
    pub files: BTreeMap<String, FileInfo>,
    pub clock: u64,
    pub log: Vec<Record>,
}

#[derive(Debug, Clone, PartialEq, Eq)]
pub enum Dirty {
    Clean,
    /// Needs to run, with the reason.
    Dirty(String),
    /// A declared source input does not exist: the build must fail naming it.
    MissingSource(String),
}

impl Dirty {
    pub fn is_dirty(&self) -> bool {
        matches!(self, Dirty::Dirty(_))
    }
}

pub fn canon(s: &str) -> String {
    String::from_utf8(refcanon::canon(s.as_bytes())).expect("utf8")
}

pub fn tag_hash(parts: &[&str], nums: &[u64]) -> u64 {
    let mut h = crate::enumerate::Fnv::default();
    for p in parts {
        h.str(p);
    }
    for n in nums {
        h.u64(*n);
    }
    // Keep tags short and printable.
    h.0 % 1_000_000_007
}

impl Model {
    pub fn tick(&mut self) -> u64 {
        self.clock += 1;
        self.clock
    }

    pub fn exists(&self, f: &str) -> bool {
        self.files.contains_key(f)
    }

    /// The record that applies to `step` under the current manifest: the latest
    /// one all of whose outputs are outputs of this step.
    pub fn attached<'a>(&'a self, p: &Project, step: usize) -> Option<&'a Record> {
        let s = &p.steps[step];
        self.log
            .iter()
            .rev()
            .find(|r| !r.outs.is_empty() && r.outs.iter().all(|o| s.all_outs().any(|x| x == o)))
            .filter(|r| {
                // The latest record that *mentions* any output of this step
                // decides: if a newer record names one of our outputs together
                // with foreign files it does not apply, but it also does not
                // hide an older one (n2 scans all records, later ones that
                // apply overwrite earlier ones).
                let _ = r;
                true
            })
    }

    pub fn discovered(&self, p: &Project, step: usize) -> Vec<String> {
        self.attached(p, step).map(|r| r.deps.clone()).unwrap_or_default()
    }

    fn stamp(&self, list: &[String]) -> Option<Vec<(String, u64)>> {
        let mut v = Vec::new();
        for f in list {
            v.push((f.clone(), self.files.get(f)?.mtime));
        }
        Some(v)
    }

    /// Signature of the step in the current file table, given its discovered
    /// dependency list; None if any of the files is missing.
    pub fn signature(&self, s: &Step, deps: &[String]) -> Option<Signature> {
        let ins: Vec<String> = s.dirtying_ins().into_iter().cloned().collect();
        let outs: Vec<String> = s.all_outs().cloned().collect();
        Some(Signature {
            ins: self.stamp(&ins)?,
            deps: self.stamp(deps)?,
            cmd: s.cmdline.clone(),
            rsp: s.rspfile.clone(),
            outs: self.stamp(&outs)?,
        })
    }

    pub fn is_dirty(&self, p: &Project, step: usize) -> Dirty {
        let s = &p.steps[step];
        if s.phony {
            return Dirty::Clean;
        }
        for f in s.dirtying_ins() {
            if !self.exists(f) {
                if p.producer(f).is_none() {
                    return Dirty::MissingSource(f.clone());
                }
                return Dirty::Dirty(format!("generated input {} missing", f));
            }
        }
        let deps = self.discovered(p, step);
        for f in &deps {
            if !self.exists(f) {
                return Dirty::Dirty(format!("discovered dependency {} missing", f));
            }
        }
        for f in s.all_outs() {
            if !self.exists(f) {
                return Dirty::Dirty(format!("output {} missing", f));
            }
        }
        let Some(rec) = self.attached(p, step) else {
            return Dirty::Dirty("no record".into());
        };
        let sig = self.signature(s, &deps).expect("all files exist");
        if sig != rec.sig {
            return Dirty::Dirty("signature changed".into());
        }
        Dirty::Clean
    }

    /// What the step's discovered list becomes after a successful run that
    /// reported `reported` (None = the command has no dependency reporting).
    pub fn normalise_report(s: &Step, reported: Option<&[String]>) -> Vec<String> {
        let mut deps: Vec<String> = Vec::new();
        if let Some(r) = reported {
            let dirtying: Vec<&String> = s.dirtying_ins();
            for name in r {
                if name.is_empty() {
                    continue;
                }
                let c = canon(name);
                if deps.contains(&c) || dirtying.iter().any(|d| **d == c) {
                    continue;
                }
                deps.push(c);
            }
        }
        deps
    }

    /// Called after a command of `step` finished successfully and its effects
    /// are in the file table.  Appends a record unless something is missing.
    pub fn record_success(&mut self, p: &Project, step: usize, reported: Option<&[String]>) {
        let s = &p.steps[step];
        let deps = Self::normalise_report(s, reported);
        if let Some(sig) = self.signature(s, &deps) {
            self.log.push(Record {
                outs: s.all_outs().cloned().collect(),
                deps,
                sig,
            });
        } else {
            // Nothing is appended: the previous record stays the latest one,
            // but the step is dirty next time because a file is missing.
        }
    }

    /// Adopt mode (`-t restat`): a dirty step whose files all exist gets a
    /// record with the current signature and its unchanged discovered list.
    pub fn adopt(&mut self, p: &Project, step: usize) {
        let s = &p.steps[step];
        if s.phony {
            return;
        }
        let deps = self.discovered(p, step);
        if let Some(sig) = self.signature(s, &deps) {
            self.log.push(Record {
                outs: s.all_outs().cloned().collect(),
                deps,
                sig,
            });
        }
    }

    /// Content tag a correct run of `step` produces for output `out` now:
    /// a function of the command, the response file and the contents of what
    /// the command truly reads.
    pub fn output_tag(&self, s: &Step, out: &str, reads: &[String]) -> u64 {
        let mut nums = Vec::new();
        for f in s.dirtying_ins() {
            nums.push(self.files.get(f).map(|i| i.tag).unwrap_or(0));
        }
        for f in reads {
            nums.push(self.files.get(f).map(|i| i.tag).unwrap_or(0));
        }
        let rsp = s.rspfile.as_ref().map(|r| r.1.as_str()).unwrap_or("");
        tag_hash(&[&s.cmdline, rsp, out], &nums)
    }
}
