//! placeholder
