//! Abstract build projects: steps, typed edges, pools, defaults, and the
//! manifest text generated from them.

use std::collections::{BTreeMap, BTreeSet};

#[derive(Debug, Clone, Copy, PartialEq, Eq, Hash, PartialOrd, Ord)]
pub enum EdgeKind {
    Explicit,
    Implicit,
    OrderOnly,
    Validation,
}

impl EdgeKind {
    pub const ALL: [EdgeKind; 4] = [
        EdgeKind::Explicit,
        EdgeKind::Implicit,
        EdgeKind::OrderOnly,
        EdgeKind::Validation,
    ];
    pub fn ordering(self) -> bool {
        !matches!(self, EdgeKind::Validation)
    }
    pub fn dirtying(self) -> bool {
        matches!(self, EdgeKind::Explicit | EdgeKind::Implicit)
    }
}

#[derive(Debug, Clone, PartialEq, Eq, Default)]
pub struct Step {
    pub outs: Vec<String>,
    /// Outputs after the `|` (not part of $out).
    pub implicit_outs: Vec<String>,
    pub phony: bool,
    pub pool: Option<String>,
    pub ins: Vec<(EdgeKind, String)>,
    /// Evaluated command line; unique per step, identifies the step to the
    /// scripted executor.
    pub cmdline: String,
    pub depfile: Option<String>,
    pub msvc: bool,
    pub rspfile: Option<(String, String)>,
    pub description: Option<String>,
    /// n2's display-only bindings.
    pub hide_success: bool,
    pub hide_progress: bool,
    /// Write every output after the `|` (a statement without explicit outputs:
    /// `build | a b: rule in`).
    pub no_explicit_outs: bool,
}

impl Default for EdgeKind {
    fn default() -> Self {
        EdgeKind::Explicit
    }
}

impl Step {
    pub fn all_outs(&self) -> impl Iterator<Item = &String> {
        self.outs.iter().chain(self.implicit_outs.iter())
    }
    pub fn ins_of(&self, pred: impl Fn(EdgeKind) -> bool) -> Vec<&String> {
        // n2 stores inputs grouped by kind in the order explicit, implicit,
        // order-only, validation.
        let mut v = Vec::new();
        for k in EdgeKind::ALL {
            if pred(k) {
                for (kk, f) in &self.ins {
                    if *kk == k {
                        v.push(f);
                    }
                }
            }
        }
        v
    }
    pub fn dirtying_ins(&self) -> Vec<&String> {
        self.ins_of(|k| k.dirtying())
    }
    pub fn ordering_ins(&self) -> Vec<&String> {
        self.ins_of(|k| k.ordering())
    }
}

#[derive(Debug, Clone, PartialEq, Eq, Default)]
pub struct Project {
    pub steps: Vec<Step>,
    pub pools: Vec<(String, usize)>,
    pub defaults: Vec<String>,
    /// Extra text placed at the top of the manifest (bindings such as
    /// builddir, comments).
    pub preamble: String,
    /// Split manifest: steps from this index on live in the named file, which
    /// the main manifest includes at its end.
    pub fragment: Option<(String, usize)>,
    /// Extra text at the top of the fragment file (or, without a fragment,
    /// after the preamble of the only file).
    pub fragment_preamble: String,
}

fn esc(path: &str) -> String {
    let mut s = String::new();
    for c in path.chars() {
        match c {
            ' ' => s.push_str("$ "),
            ':' => s.push_str("$:"),
            '$' => s.push_str("$$"),
            c => s.push(c),
        }
    }
    s
}

fn esc_val(v: &str) -> String {
    v.replace('$', "$$")
}

impl Project {
    /// The whole project as one manifest (ignores `fragment`).
    pub fn manifest_text(&self) -> String {
        let mut t = self.render(0, self.steps.len(), true, true, true);
        if !self.fragment_preamble.is_empty() {
            t.push_str(&self.fragment_preamble);
        }
        t
    }

    /// Text of one file of a (possibly split) manifest.  The fragment holds
    /// the pools, the user steps and the default statement; the main file the
    /// preamble, the steps before the split point and the include.
    pub fn text_of_file(&self, file: &str) -> String {
        match &self.fragment {
            Some((name, first)) if name == file => format!("{}{}", self.fragment_preamble, self.render(*first, self.steps.len(), true, true, false)),
            Some((name, first)) => {
                let mut t = self.render(0, *first, false, false, true);
                t.push_str(&format!("include {}\n", name));
                t
            }
            None => self.manifest_text(),
        }
    }

    fn render(&self, from: usize, to: usize, pools: bool, with_defaults: bool, preamble: bool) -> String {
        let mut t = String::new();
        if preamble {
            t.push_str(&self.preamble);
        }
        if pools {
            for (name, depth) in &self.pools {
                t.push_str(&format!("pool {}\n  depth = {}\n", name, depth));
            }
        }
        for (i, s) in self.steps.iter().enumerate() {
            if i < from || i >= to {
                continue;
            }
            let rule = if s.phony {
                "phony".to_string()
            } else {
                let r = format!("r{}", i);
                t.push_str(&format!("rule {}\n  command = {}\n", r, esc_val(&s.cmdline)));
                if let Some(d) = &s.depfile {
                    t.push_str(&format!("  depfile = {}\n", esc_val(d)));
                }
                if s.msvc {
                    t.push_str("  deps = msvc\n");
                }
                if let Some((p, c)) = &s.rspfile {
                    t.push_str(&format!("  rspfile = {}\n  rspfile_content = {}\n", esc_val(p), esc_val(c)));
                }
                if s.pool.is_some() {
                    // through a build-level binding, as generators write it
                    t.push_str("  pool = $step_pool\n");
                }
                if let Some(d) = &s.description {
                    t.push_str(&format!("  description = {}\n", esc_val(d)));
                }
                if s.hide_success {
                    t.push_str("  hide_success = 1\n");
                }
                if s.hide_progress {
                    t.push_str("  hide_progress = 1\n");
                }
                r
            };
            t.push_str("build");
            if !s.no_explicit_outs {
                for o in &s.outs {
                    t.push(' ');
                    t.push_str(&esc(o));
                }
            }
            if !s.implicit_outs.is_empty() || s.no_explicit_outs {
                t.push_str(" |");
                if s.no_explicit_outs {
                    for o in &s.outs {
                        t.push(' ');
                        t.push_str(&esc(o));
                    }
                }
                for o in &s.implicit_outs {
                    t.push(' ');
                    t.push_str(&esc(o));
                }
            }
            t.push_str(": ");
            t.push_str(&rule);
            for (k, sep) in [
                (EdgeKind::Explicit, ""),
                (EdgeKind::Implicit, " |"),
                (EdgeKind::OrderOnly, " ||"),
                (EdgeKind::Validation, " |@"),
            ] {
                let list: Vec<&String> = s.ins.iter().filter(|(kk, _)| *kk == k).map(|(_, f)| f).collect();
                if list.is_empty() {
                    continue;
                }
                t.push_str(sep);
                for f in list {
                    t.push(' ');
                    t.push_str(&esc(f));
                }
            }
            t.push('\n');
            if !s.phony {
                if let Some(p) = &s.pool {
                    t.push_str(&format!("  step_pool = {}\n", p));
                }
            }
        }
        if with_defaults && !self.defaults.is_empty() {
            // Every other default is spelled through a file-level variable, as
            // generators write them (`default $builddir/app`).
            let mut line = String::from("default");
            for (i, d) in self.defaults.iter().enumerate() {
                line.push(' ');
                let first = d.chars().next().filter(|c| c.is_ascii_alphanumeric());
                match first {
                    Some(c) if i % 2 == 0 => {
                        t.push_str(&format!("dflt{} = {}\n", i, c));
                        line.push_str(&format!("${{dflt{}}}{}", i, esc(&d[1..])));
                    }
                    _ => line.push_str(&esc(d)),
                }
            }
            t.push_str(&line);
            t.push('\n');
        }
        t
    }

    pub fn producer(&self, file: &str) -> Option<usize> {
        self.steps
            .iter()
            .position(|s| s.all_outs().any(|o| o == file))
    }

    pub fn step_by_cmdline(&self, cmdline: &str) -> Option<usize> {
        self.steps
            .iter()
            .position(|s| !s.phony && s.cmdline == cmdline)
    }

    /// Files that are inputs somewhere and produced nowhere.
    pub fn sources(&self) -> Vec<String> {
        let mut v: Vec<String> = Vec::new();
        for s in &self.steps {
            for (_, f) in &s.ins {
                if self.producer(f).is_none() && !v.contains(f) {
                    v.push(f.clone());
                }
            }
        }
        v
    }

    /// Direct predecessor steps through edges accepted by `pred`.
    pub fn preds(&self, step: usize, pred: impl Fn(EdgeKind) -> bool) -> BTreeSet<usize> {
        let mut out = BTreeSet::new();
        for (k, f) in &self.steps[step].ins {
            if pred(*k) {
                if let Some(p) = self.producer(f) {
                    out.insert(p);
                }
            }
        }
        out
    }

    /// Transitive ordering predecessors (explicit, implicit, order-only).
    pub fn ord_pred(&self, step: usize) -> BTreeSet<usize> {
        let mut seen = BTreeSet::new();
        let mut stack = vec![step];
        while let Some(s) = stack.pop() {
            for p in self.preds(s, |k| k.ordering()) {
                if seen.insert(p) {
                    stack.push(p);
                }
            }
        }
        seen
    }

    /// Steps needed by the given files: closure over all four edge kinds.
    pub fn closure(&self, files: &[String]) -> BTreeSet<usize> {
        let mut seen = BTreeSet::new();
        let mut stack: Vec<usize> = files.iter().filter_map(|f| self.producer(f)).collect();
        for &s in &stack {
            seen.insert(s);
        }
        while let Some(s) = stack.pop() {
            for p in self.preds(s, |_| true) {
                if seen.insert(p) {
                    stack.push(p);
                }
            }
        }
        seen
    }

    /// The steps an invocation with these command-line targets considers:
    /// targets, else defaults, else every output (minus `exclude`).
    pub fn wanted(&self, targets: &[String], exclude: Option<&str>) -> BTreeSet<usize> {
        if !targets.is_empty() {
            return self.closure(targets);
        }
        if !self.defaults.is_empty() {
            return self.closure(&self.defaults);
        }
        let mut all: Vec<String> = Vec::new();
        for s in &self.steps {
            for o in s.all_outs() {
                if Some(o.as_str()) != exclude {
                    all.push(o.clone());
                }
            }
        }
        self.closure(&all)
    }

    /// True if the ordering edges contain a cycle reachable from `from`.
    pub fn ordering_cycle_from(&self, from: &BTreeSet<usize>) -> bool {
        // DFS with colours over ordering edges only.
        fn dfs(p: &Project, s: usize, colour: &mut BTreeMap<usize, u8>) -> bool {
            match colour.get(&s) {
                Some(1) => return true,
                Some(2) => return false,
                _ => {}
            }
            colour.insert(s, 1);
            for q in p.preds(s, |k| k.ordering()) {
                if dfs(p, q, colour) {
                    return true;
                }
            }
            colour.insert(s, 2);
            false
        }
        // Validation edges extend reachability but do not close cycles.
        let mut colour = BTreeMap::new();
        for &s in from {
            if dfs(self, s, &mut colour) {
                return true;
            }
        }
        false
    }

    /// Topological order of the given steps by ordering edges (assumes acyclic).
    pub fn topo(&self, steps: &BTreeSet<usize>) -> Vec<usize> {
        let mut out = Vec::new();
        let mut done = BTreeSet::new();
        fn visit(p: &Project, s: usize, steps: &BTreeSet<usize>, done: &mut BTreeSet<usize>, out: &mut Vec<usize>, depth: usize) {
            if done.contains(&s) || depth > 64 {
                return;
            }
            done.insert(s);
            for q in p.preds(s, |k| k.ordering()) {
                visit(p, q, steps, done, out, depth + 1);
            }
            if steps.contains(&s) {
                out.push(s);
            }
        }
        for &s in steps {
            visit(self, s, steps, &mut done, &mut out, 0);
        }
        out
    }

    pub fn pool_depth(&self, name: &str) -> Option<usize> {
        if let Some((_, d)) = self.pools.iter().rev().find(|(n, _)| n == name) {
            return Some(*d);
        }
        match name {
            "console" => Some(1),
            "" => Some(0),
            _ => None,
        }
    }
}
