//! Pure support code for the n2 verification harness: enumerators, reference
//! models, result/evidence types.  Nothing in here depends on n2.

pub mod enumerate;
pub mod project;
pub mod refbuild;
pub mod refcanon;
pub mod refdepfile;
pub mod refmanifest;
pub mod report;
