//! Abstract manifests, their concrete spellings, and a reference loader that
//! implements the statements of C10 (roles and attributes), C11 (scoping) and
//! C14 (one producer per file) literally.

use crate::refcanon;
use std::collections::BTreeMap;

// ---------------------------------------------------------------------------
// Abstract syntax.

#[derive(Debug, Clone, PartialEq, Eq)]
pub enum Piece {
    /// Literal text, unescaped.
    Lit(String),
    /// Variable reference.
    Var(String),
}

pub type Expr = Vec<Piece>;

pub fn lit(s: &str) -> Expr {
    vec![Piece::Lit(s.to_string())]
}
pub fn var(s: &str) -> Expr {
    vec![Piece::Var(s.to_string())]
}
/// Parses a compact notation: `$name` / `${name}` are references, everything
/// else literal text (`$$` is a literal dollar).
pub fn expr(s: &str) -> Expr {
    let mut out: Expr = Vec::new();
    let b: Vec<char> = s.chars().collect();
    let mut i = 0;
    let mut cur = String::new();
    while i < b.len() {
        if b[i] == '$' && i + 1 < b.len() {
            if b[i + 1] == '$' {
                cur.push('$');
                i += 2;
                continue;
            }
            if !cur.is_empty() {
                out.push(Piece::Lit(std::mem::take(&mut cur)));
            }
            let mut name = String::new();
            if b[i + 1] == '{' {
                i += 2;
                while i < b.len() && b[i] != '}' {
                    name.push(b[i]);
                    i += 1;
                }
                i += 1;
            } else {
                i += 1;
                while i < b.len() && (b[i].is_ascii_alphanumeric() || b[i] == '_' || b[i] == '-') {
                    name.push(b[i]);
                    i += 1;
                }
            }
            out.push(Piece::Var(name));
        } else {
            cur.push(b[i]);
            i += 1;
        }
    }
    if !cur.is_empty() {
        out.push(Piece::Lit(cur));
    }
    out
}

#[derive(Debug, Clone, PartialEq, Eq, Default)]
pub struct BuildStmt {
    pub outs: Vec<Expr>,
    pub implicit_outs: Vec<Expr>,
    pub rule: String,
    pub ins: Vec<Expr>,
    pub implicit_ins: Vec<Expr>,
    pub order_ins: Vec<Expr>,
    pub validation_ins: Vec<Expr>,
    pub vars: Vec<(String, Expr)>,
}

#[derive(Debug, Clone, PartialEq, Eq)]
pub enum Stmt {
    Binding(String, Expr),
    Rule(String, Vec<(String, Expr)>),
    Build(BuildStmt),
    Default(Vec<Expr>),
    Pool(String, Option<usize>),
    /// Path expression; the file's statements live in `ManifestSet::files`.
    Include(Expr),
    Subninja(Expr),
    Comment(String),
}

#[derive(Debug, Clone, PartialEq, Eq, Default)]
pub struct ManifestSet {
    /// (file name, statements); the first is the main manifest.
    pub files: Vec<(String, Vec<Stmt>)>,
}

// ---------------------------------------------------------------------------
// Spelling.

#[derive(Debug, Clone, Copy, PartialEq, Eq)]
pub enum Slot {
    KwGap,
    PathGap,
    PreColon,
    PostColon,
    PrePipe,
    PostPipe,
    Eol,
    Indent,
    Eq,
    Between,
    MidCont,
}

impl Slot {
    pub fn options(self) -> &'static [&'static str] {
        match self {
            Slot::KwGap => &[" ", "  ", " $\n  "],
            // (`$`-newline alone is a continuation, not a separator, so every
            // option contains a blank.)
            Slot::PathGap => &[" ", "  ", " $\n    ", "   $\n"],
            Slot::PreColon => &["", " ", " $\n  "],
            Slot::PostColon => &[" ", "", "  ", " $\n  "],
            Slot::PrePipe => &[" ", "", "  ", " $\n  "],
            Slot::PostPipe => &[" ", "", "  "],
            Slot::Eol => &["", " ", "  "],
            Slot::Indent => &["  ", " ", "    "],
            Slot::Eq => &[" = ", "=", "  =  ", " =", "= "],
            Slot::Between => &["", "\n", "# a comment: | $ x\n", "\n\n"],
            Slot::MidCont => &["", "$\n  ", "$\n"],
        }
    }
}

#[derive(Debug, Clone, PartialEq, Eq)]
pub enum Tok {
    Text(String),
    Slot(Slot),
    /// A variable reference that may be spelled `$name` (option 0, only when
    /// `bare_ok`) or `${name}`.
    VarRef { name: String, bare_ok: bool },
    /// Marks the start of statement `i` (for line numbers).
    Mark(usize),
}

fn is_simple_var_char(c: char) -> bool {
    c.is_ascii_alphanumeric() || c == '_' || c == '-'
}

fn escape_path_lit(s: &str, out: &mut String) {
    for c in s.chars() {
        match c {
            ' ' => out.push_str("$ "),
            ':' => out.push_str("$:"),
            '$' => out.push_str("$$"),
            c => out.push(c),
        }
    }
}

fn escape_value_lit(s: &str, first: bool, out: &mut String) {
    for (i, c) in s.chars().enumerate() {
        match c {
            ' ' if first && i == 0 => out.push_str("$ "),
            '$' => out.push_str("$$"),
            c => out.push(c),
        }
    }
}

/// Emits the tokens of one expression.  `path` selects path escaping and
/// allows a continuation in the middle of long literals.
fn expr_tokens(e: &Expr, path: bool, toks: &mut Vec<Tok>) {
    for (i, p) in e.iter().enumerate() {
        match p {
            Piece::Lit(s) => {
                let chars: Vec<char> = s.chars().collect();
                if path && chars.len() >= 2 {
                    let mid = chars.len() / 2;
                    let (a, b): (String, String) =
                        (chars[..mid].iter().collect(), chars[mid..].iter().collect());
                    let mut t = String::new();
                    escape_path_lit(&a, &mut t);
                    toks.push(Tok::Text(t));
                    toks.push(Tok::Slot(Slot::MidCont));
                    let mut t = String::new();
                    escape_path_lit(&b, &mut t);
                    toks.push(Tok::Text(t));
                } else {
                    let mut t = String::new();
                    if path {
                        escape_path_lit(s, &mut t);
                    } else {
                        escape_value_lit(s, i == 0, &mut t);
                    }
                    toks.push(Tok::Text(t));
                }
            }
            Piece::Var(name) => {
                // `$name` is only unambiguous when the next character cannot
                // continue an identifier.
                let next_char = match e.get(i + 1) {
                    Some(Piece::Lit(s)) => s.chars().next(),
                    Some(Piece::Var(_)) => Some('$'),
                    None => None,
                };
                let bare_ok = name.chars().all(is_simple_var_char)
                    && !name.is_empty()
                    && !next_char.map(is_simple_var_char).unwrap_or(false);
                toks.push(Tok::VarRef {
                    name: name.clone(),
                    bare_ok,
                });
            }
        }
    }
}

fn path_list(section: &[Expr], toks: &mut Vec<Tok>, first_gap: Option<Slot>) {
    for (i, e) in section.iter().enumerate() {
        if i > 0 {
            toks.push(Tok::Slot(Slot::PathGap));
        } else if let Some(g) = first_gap {
            toks.push(Tok::Slot(g));
        }
        expr_tokens(e, true, toks);
    }
}

fn vars_tokens(vars: &[(String, Expr)], toks: &mut Vec<Tok>) {
    for (k, v) in vars {
        toks.push(Tok::Slot(Slot::Indent));
        toks.push(Tok::Text(k.clone()));
        if v.is_empty() {
            toks.push(Tok::Text(" =\n".into()));
        } else {
            toks.push(Tok::Slot(Slot::Eq));
            expr_tokens(v, false, toks);
            toks.push(Tok::Text("\n".into()));
        }
    }
}

/// Tokens of one file.
pub fn file_tokens(stmts: &[Stmt]) -> Vec<Tok> {
    let mut toks = Vec::new();
    for (i, s) in stmts.iter().enumerate() {
        toks.push(Tok::Slot(Slot::Between));
        match s {
            Stmt::Comment(c) => {
                toks.push(Tok::Mark(i));
                toks.push(Tok::Text(format!("#{}\n", c)));
            }
            Stmt::Binding(k, v) => {
                toks.push(Tok::Mark(i));
                toks.push(Tok::Text(k.clone()));
                if v.is_empty() {
                    toks.push(Tok::Text(" =\n".into()));
                } else {
                    toks.push(Tok::Slot(Slot::Eq));
                    expr_tokens(v, false, &mut toks);
                    toks.push(Tok::Text("\n".into()));
                }
            }
            Stmt::Rule(name, vars) => {
                toks.push(Tok::Mark(i));
                toks.push(Tok::Text("rule".into()));
                toks.push(Tok::Slot(Slot::KwGap));
                toks.push(Tok::Text(format!("{}\n", name)));
                vars_tokens(vars, &mut toks);
            }
            Stmt::Pool(name, depth) => {
                toks.push(Tok::Mark(i));
                toks.push(Tok::Text("pool".into()));
                toks.push(Tok::Slot(Slot::KwGap));
                toks.push(Tok::Text(format!("{}\n", name)));
                if let Some(d) = depth {
                    toks.push(Tok::Slot(Slot::Indent));
                    toks.push(Tok::Text("depth".into()));
                    toks.push(Tok::Slot(Slot::Eq));
                    toks.push(Tok::Text(format!("{}\n", d)));
                }
            }
            Stmt::Default(paths) => {
                toks.push(Tok::Text("default".into()));
                toks.push(Tok::Slot(Slot::KwGap));
                toks.push(Tok::Mark(i));
                path_list(paths, &mut toks, None);
                toks.push(Tok::Slot(Slot::Eol));
                toks.push(Tok::Text("\n".into()));
            }
            Stmt::Include(p) | Stmt::Subninja(p) => {
                toks.push(Tok::Mark(i));
                toks.push(Tok::Text(
                    if matches!(s, Stmt::Include(_)) {
                        "include"
                    } else {
                        "subninja"
                    }
                    .into(),
                ));
                toks.push(Tok::Slot(Slot::KwGap));
                // The rest of the line is the path (no path-separator escapes
                // are needed but they are legal).
                expr_tokens(p, false, &mut toks);
                toks.push(Tok::Text("\n".into()));
            }
            Stmt::Build(b) => {
                toks.push(Tok::Text("build".into()));
                toks.push(Tok::Slot(Slot::KwGap));
                // n2 records the line on which the first output starts.
                toks.push(Tok::Mark(i));
                path_list(&b.outs, &mut toks, None);
                if !b.implicit_outs.is_empty() {
                    toks.push(Tok::Slot(Slot::PrePipe));
                    toks.push(Tok::Text("|".into()));
                    path_list(&b.implicit_outs, &mut toks, Some(Slot::PostPipe));
                }
                toks.push(Tok::Slot(Slot::PreColon));
                toks.push(Tok::Text(":".into()));
                toks.push(Tok::Slot(Slot::PostColon));
                toks.push(Tok::Text(b.rule.clone()));
                path_list(&b.ins, &mut toks, Some(Slot::PathGap));
                if !b.implicit_ins.is_empty() {
                    toks.push(Tok::Slot(Slot::PrePipe));
                    toks.push(Tok::Text("|".into()));
                    path_list(&b.implicit_ins, &mut toks, Some(Slot::PostPipe));
                }
                if !b.order_ins.is_empty() {
                    toks.push(Tok::Slot(Slot::PrePipe));
                    toks.push(Tok::Text("||".into()));
                    path_list(&b.order_ins, &mut toks, Some(Slot::PostPipe));
                }
                if !b.validation_ins.is_empty() {
                    toks.push(Tok::Slot(Slot::PrePipe));
                    toks.push(Tok::Text("|@".into()));
                    path_list(&b.validation_ins, &mut toks, Some(Slot::PostPipe));
                }
                toks.push(Tok::Slot(Slot::Eol));
                toks.push(Tok::Text("\n".into()));
                vars_tokens(&b.vars, &mut toks);
            }
        }
    }
    toks
}

pub fn radices(toks: &[Tok]) -> Vec<usize> {
    toks.iter()
        .filter_map(|t| match t {
            Tok::Slot(s) => Some(s.options().len()),
            Tok::VarRef { bare_ok, .. } => Some(if *bare_ok { 2 } else { 1 }),
            _ => None,
        })
        .collect()
}

/// Renders tokens with the given choice per slot; returns the text and the
/// 1-based line of each marked statement.
pub fn render(toks: &[Tok], choice: &[usize]) -> (String, BTreeMap<usize, usize>) {
    let mut out = String::new();
    let mut lines = BTreeMap::new();
    let mut ci = 0;
    for t in toks {
        match t {
            Tok::Text(s) => out.push_str(s),
            Tok::Slot(s) => {
                out.push_str(s.options()[choice[ci]]);
                ci += 1;
            }
            Tok::VarRef { name, bare_ok } => {
                let c = choice[ci];
                ci += 1;
                if *bare_ok && c == 0 {
                    out.push('$');
                    out.push_str(name);
                } else {
                    out.push_str("${");
                    out.push_str(name);
                    out.push('}');
                }
            }
            Tok::Mark(i) => {
                lines.insert(*i, 1 + out.matches('\n').count());
            }
        }
    }
    assert_eq!(ci, choice.len());
    (out, lines)
}

pub fn render_canonical(stmts: &[Stmt]) -> (String, BTreeMap<usize, usize>) {
    let toks = file_tokens(stmts);
    let r = radices(&toks);
    render(&toks, &vec![0; r.len()])
}

// ---------------------------------------------------------------------------
// Reference loader.

#[derive(Debug, Clone, PartialEq, Eq, Default)]
pub struct RefBuild {
    pub location: String,
    pub outs: Vec<String>,
    pub explicit_outs: usize,
    pub ins: Vec<String>,
    pub explicit_ins: usize,
    pub implicit_ins: usize,
    pub order_only_ins: usize,
    pub cmdline: Option<String>,
    pub desc: Option<String>,
    pub depfile: Option<String>,
    pub parse_showincludes: bool,
    pub rspfile: Option<(String, String)>,
    pub pool: Option<String>,
    pub hide_success: bool,
    pub hide_progress: bool,
    /// True when an output was listed more than once in the statement.
    pub repeated_output: bool,
}

#[derive(Debug, Clone, PartialEq, Eq, Default)]
pub struct RefGraph {
    pub builds: Vec<RefBuild>,
    pub defaults: Vec<String>,
    pub pools: Vec<(String, usize)>,
    pub builddir: Option<String>,
}

#[derive(Debug, Clone, PartialEq, Eq)]
pub enum RefError {
    UnknownRule(String),
    DuplicateOutput {
        name: String,
        first: String,
        second: String,
    },
    InvalidDeps(String),
    RspfileMismatch,
    EmptyPath,
    MissingInclude(String),
    IncludeCycle(String),
}

type Scope = BTreeMap<String, String>;

fn lookup_file(scope: &Scope, name: &str) -> String {
    scope.get(name).cloned().unwrap_or_default()
}

fn eval_file(e: &Expr, scope: &Scope) -> String {
    let mut out = String::new();
    for p in e {
        match p {
            Piece::Lit(s) => out.push_str(s),
            Piece::Var(v) => out.push_str(&lookup_file(scope, v)),
        }
    }
    out
}

/// Path scope: build-block bindings (each expanded in file scope), then file.
fn eval_path(e: &Expr, build_vars: &[(String, Expr)], scope: &Scope) -> String {
    let mut out = String::new();
    for p in e {
        match p {
            Piece::Lit(s) => out.push_str(s),
            Piece::Var(v) => match last_binding(build_vars, v) {
                Some(be) => out.push_str(&eval_file(be, scope)),
                None => out.push_str(&lookup_file(scope, v)),
            },
        }
    }
    out
}

fn last_binding<'a>(vars: &'a [(String, Expr)], key: &str) -> Option<&'a Expr> {
    vars.iter().rev().find(|(k, _)| k == key).map(|(_, v)| v)
}

/// Rule binding: implicit variables, then build block (in file scope), then file.
fn eval_rule(
    e: &Expr,
    implicit: &dyn Fn(&str) -> Option<String>,
    build_vars: &[(String, Expr)],
    scope: &Scope,
) -> String {
    let mut out = String::new();
    for p in e {
        match p {
            Piece::Lit(s) => out.push_str(s),
            Piece::Var(v) => {
                if let Some(s) = implicit(v) {
                    out.push_str(&s);
                } else if let Some(be) = last_binding(build_vars, v) {
                    out.push_str(&eval_file(be, scope));
                } else {
                    out.push_str(&lookup_file(scope, v));
                }
            }
        }
    }
    out
}

fn canon_path(s: &str) -> Result<String, RefError> {
    if s.is_empty() {
        return Err(RefError::EmptyPath);
    }
    Ok(String::from_utf8(refcanon::canon(s.as_bytes())).expect("utf8"))
}

pub struct RefLoader<'a> {
    set: &'a ManifestSet,
    /// Line of each statement per file (from the speller), for locations.
    lines: &'a BTreeMap<String, BTreeMap<usize, usize>>,
    rules: BTreeMap<String, Vec<(String, Expr)>>,
    producers: BTreeMap<String, String>,
    graph: RefGraph,
    /// Whether `include` extends the includer's scope (the property) or not.
    include_extends: bool,
    stack: Vec<String>,
}

pub fn ref_load(
    set: &ManifestSet,
    lines: &BTreeMap<String, BTreeMap<usize, usize>>,
) -> Result<RefGraph, RefError> {
    ref_load_with(set, lines, true)
}

/// `include_extends = false` gives the variant in which bindings made by an
/// included file are not visible to the includer afterwards (used only to
/// classify a disagreement, never as the expectation).
pub fn ref_load_with(
    set: &ManifestSet,
    lines: &BTreeMap<String, BTreeMap<usize, usize>>,
    include_extends: bool,
) -> Result<RefGraph, RefError> {
    let mut l = RefLoader {
        set,
        lines,
        rules: BTreeMap::new(),
        producers: BTreeMap::new(),
        graph: RefGraph::default(),
        include_extends,
        stack: Vec::new(),
    };
    l.rules.insert("phony".into(), Vec::new());
    let (name, stmts) = &set.files[0];
    let mut scope = Scope::new();
    l.load_file(name, stmts, &mut scope)?;
    l.graph.builddir = scope.get("builddir").cloned();
    Ok(l.graph)
}

impl<'a> RefLoader<'a> {
    fn load_file(&mut self, file: &str, stmts: &[Stmt], scope: &mut Scope) -> Result<(), RefError> {
        if self.stack.iter().any(|f| f == file) {
            return Err(RefError::IncludeCycle(file.to_string()));
        }
        self.stack.push(file.to_string());
        for (i, s) in stmts.iter().enumerate() {
            match s {
                Stmt::Comment(_) => {}
                Stmt::Binding(k, v) => {
                    let val = eval_file(v, scope);
                    scope.insert(k.clone(), val);
                }
                Stmt::Rule(name, vars) => {
                    // Later bindings of the same key win.
                    self.rules.insert(name.clone(), vars.clone());
                }
                Stmt::Pool(name, depth) => {
                    let d = depth.unwrap_or(0);
                    match self.graph.pools.iter_mut().find(|(n, _)| n == name) {
                        Some(p) => p.1 = d,
                        None => self.graph.pools.push((name.clone(), d)),
                    }
                }
                Stmt::Default(paths) => {
                    for p in paths {
                        let s = canon_path(&eval_file(p, scope))?;
                        self.graph.defaults.push(s);
                    }
                }
                Stmt::Include(p) | Stmt::Subninja(p) => {
                    let path = canon_path(&eval_file(p, scope))?;
                    let Some((_, sub)) = self.set.files.iter().find(|(n, _)| *n == path) else {
                        return Err(RefError::MissingInclude(path));
                    };
                    let sub = sub.clone();
                    let mut child = scope.clone();
                    self.load_file(&path, &sub, &mut child)?;
                    if matches!(s, Stmt::Include(_)) && self.include_extends {
                        *scope = child;
                    }
                }
                Stmt::Build(b) => {
                    let line = self
                        .lines
                        .get(file)
                        .and_then(|m| m.get(&i))
                        .copied()
                        .unwrap_or(0);
                    self.add_build(file, line, b, scope)?;
                }
            }
        }
        self.stack.pop();
        Ok(())
    }

    fn add_build(&mut self, file: &str, line: usize, b: &BuildStmt, scope: &Scope) -> Result<(), RefError> {
        let location = format!("{}:{}", file, line);
        let ev = |list: &[Expr]| -> Result<Vec<String>, RefError> {
            list.iter()
                .map(|e| canon_path(&eval_path(e, &b.vars, scope)))
                .collect()
        };
        // n2 evaluates inputs before outputs; only matters for which EmptyPath
        // is reported, which is not compared.
        let ins_e = ev(&b.ins)?;
        let ins_i = ev(&b.implicit_ins)?;
        let ins_o = ev(&b.order_ins)?;
        let ins_v = ev(&b.validation_ins)?;
        let outs_e = ev(&b.outs)?;
        let outs_i = ev(&b.implicit_outs)?;

        let Some(rule) = self.rules.get(&b.rule).cloned() else {
            return Err(RefError::UnknownRule(b.rule.clone()));
        };

        // $in / $out are the explicit lists as written (canonical names).
        let in_list = ins_e.clone();
        let out_list = outs_e.clone();
        let implicit = move |v: &str| -> Option<String> {
            match v {
                "in" => Some(in_list.join(" ")),
                "in_newline" => Some(in_list.join("\n")),
                "out" => Some(out_list.join(" ")),
                "out_newline" => Some(out_list.join("\n")),
                _ => None,
            }
        };
        let lookup = |key: &str| -> Option<String> {
            if let Some(be) = last_binding(&b.vars, key) {
                return Some(eval_file(be, scope));
            }
            let re = last_binding(&rule, key)?;
            Some(eval_rule(re, &implicit, &b.vars, scope))
        };
        let cmdline = lookup("command");
        let desc = lookup("description");
        let depfile = lookup("depfile");
        let parse_showincludes = match lookup("deps").as_deref() {
            None | Some("gcc") => false,
            Some("msvc") => true,
            Some(o) => return Err(RefError::InvalidDeps(o.to_string())),
        };
        let pool = lookup("pool");
        let rspfile = match (lookup("rspfile"), lookup("rspfile_content")) {
            (None, None) => None,
            (Some(p), Some(c)) => Some((p, c)),
            _ => return Err(RefError::RspfileMismatch),
        };
        let hide_success = lookup("hide_success").is_some();
        let hide_progress = lookup("hide_progress").is_some();

        // One producer per file; repeats inside the statement collapse.
        let mut outs: Vec<String> = Vec::new();
        let mut explicit_outs = 0;
        let mut repeated = false;
        for (i, o) in outs_e.iter().chain(outs_i.iter()).enumerate() {
            if outs.contains(o) {
                repeated = true;
                continue;
            }
            if let Some(first) = self.producers.get(o) {
                return Err(RefError::DuplicateOutput {
                    name: o.clone(),
                    first: first.clone(),
                    second: location.clone(),
                });
            }
            outs.push(o.clone());
            if i < outs_e.len() {
                explicit_outs += 1;
            }
        }
        for o in &outs {
            self.producers.insert(o.clone(), location.clone());
        }
        let mut ins = ins_e.clone();
        ins.extend(ins_i.iter().cloned());
        ins.extend(ins_o.iter().cloned());
        ins.extend(ins_v.iter().cloned());
        self.graph.builds.push(RefBuild {
            location,
            outs,
            explicit_outs,
            ins,
            explicit_ins: ins_e.len(),
            implicit_ins: ins_i.len(),
            order_only_ins: ins_o.len(),
            cmdline,
            desc,
            depfile,
            parse_showincludes,
            rspfile,
            pool,
            hide_success,
            hide_progress,
            repeated_output: repeated,
        });
        Ok(())
    }
}

// ---------------------------------------------------------------------------
// Corpora.

/// Paths needing every kind of escape, UTF-8, a subdirectory.
pub const PATHS: &[&str] = &["a", "d/b", "a b", "c:d", "e$f", "ü", "gg/hh.o", "w\\.\\x"];

fn rotate_paths(offset: usize) -> impl FnMut() -> Expr {
    let mut n = offset;
    move || {
        let p = PATHS[n % PATHS.len()];
        let round = n / PATHS.len();
        n += 1;
        // Keep paths distinct when the alphabet wraps.
        if round > offset / PATHS.len() {
            lit(&format!("{}{}", p, round))
        } else {
            lit(p)
        }
    }
}

/// C10 family B: one rule and one build statement with every presence
/// pattern of the optional sections, 1..2 paths each.
pub fn corpus_build_shapes() -> Vec<ManifestSet> {
    let mut out = Vec::new();
    // counts for [implicit outs, explicit ins, implicit ins, order-only, validation]
    for code in 0..3usize.pow(5) {
        let mut c = [0usize; 5];
        let mut x = code;
        for slot in c.iter_mut() {
            *slot = x % 3;
            x /= 3;
        }
        for offset in 0..PATHS.len() {
            let mut next = rotate_paths(offset);
            let mut b = BuildStmt {
                rule: "r".into(),
                ..Default::default()
            };
            b.outs.push(next());
            if code % 2 == 1 {
                b.outs.push(next());
            }
            for _ in 0..c[0] {
                b.implicit_outs.push(next());
            }
            for _ in 0..c[1] {
                b.ins.push(next());
            }
            for _ in 0..c[2] {
                b.implicit_ins.push(next());
            }
            for _ in 0..c[3] {
                b.order_ins.push(next());
            }
            for _ in 0..c[4] {
                b.validation_ins.push(next());
            }
            let stmts = vec![
                Stmt::Rule("r".into(), vec![("command".into(), expr("cc $in -o $out"))]),
                Stmt::Build(b),
            ];
            out.push(ManifestSet {
                files: vec![("build.ninja".into(), stmts)],
            });
        }
    }
    out
}

/// C10 family A: every placement of the step attributes at rule or build level.
pub fn corpus_attributes() -> Vec<ManifestSet> {
    let mut out = Vec::new();
    // 0 absent, 1 rule level, 2 build level
    let attrs = ["command", "description", "depfile", "pool"];
    for code in 0..3usize.pow(4) {
        for deps in 0..5usize {
            for rsp in 0..4usize {
                let mut rule_vars: Vec<(String, Expr)> = Vec::new();
                let mut build_vars: Vec<(String, Expr)> = Vec::new();
                let mut x = code;
                for a in attrs {
                    let val = match a {
                        "command" => expr("run $in > $out # ${t-a_g2}"),
                        "description" => expr("DESC $out"),
                        "depfile" => expr("$out.d"),
                        _ => expr("p1"),
                    };
                    match x % 3 {
                        1 => rule_vars.push((a.to_string(), val)),
                        2 => build_vars.push((
                            a.to_string(),
                            // Build-level values cannot use $in/$out.
                            match a {
                                "command" => expr("brun $t-a_g2 x"),
                                "description" => expr("BDESC"),
                                "depfile" => expr("b.d"),
                                _ => expr("p2"),
                            },
                        )),
                        _ => {}
                    }
                    x /= 3;
                }
                match deps {
                    1 => rule_vars.push(("deps".into(), expr("gcc"))),
                    2 => rule_vars.push(("deps".into(), expr("msvc"))),
                    3 => build_vars.push(("deps".into(), expr("msvc"))),
                    4 => build_vars.push(("deps".into(), expr("gcc"))),
                    _ => {}
                }
                match rsp {
                    1 => {
                        rule_vars.push(("rspfile".into(), expr("$out.rsp")));
                        rule_vars.push(("rspfile_content".into(), expr("$in $t-a_g2")));
                    }
                    2 => {
                        build_vars.push(("rspfile".into(), expr("b.rsp")));
                        build_vars.push(("rspfile_content".into(), expr("content $t-a_g2.x")));
                    }
                    3 => {
                        rule_vars.push(("rspfile".into(), expr("$out.rsp")));
                        build_vars.push(("rspfile_content".into(), expr("mixed")));
                    }
                    _ => {}
                }
                let b = BuildStmt {
                    outs: vec![lit("o1"), lit("d/o2")],
                    rule: "r".into(),
                    ins: vec![lit("i1"), lit("i 2")],
                    implicit_ins: vec![lit("i3")],
                    vars: build_vars,
                    ..Default::default()
                };
                let stmts = vec![
                    Stmt::Binding("t-a_g2".into(), expr("T1")),
                    Stmt::Pool("p1".into(), Some(2)),
                    Stmt::Pool("p2".into(), None),
                    Stmt::Rule("r".into(), rule_vars),
                    Stmt::Build(b),
                ];
                out.push(ManifestSet {
                    files: vec![("build.ninja".into(), stmts)],
                });
            }
        }
    }
    out
}

/// C10 family S: every sequence of up to `max_len` statements over a fixed
/// menu of statement kinds (on top of a rule definition).
pub fn corpus_sequences(max_len: usize) -> Vec<ManifestSet> {
    let menu: Vec<Stmt> = vec![
        Stmt::Rule("r2".into(), vec![("command".into(), expr("two $in $out")), ("description".into(), expr("D $v"))]),
        Stmt::Build(BuildStmt {
            outs: vec![lit("x")],
            rule: "r".into(),
            ins: vec![lit("y")],
            ..Default::default()
        }),
        Stmt::Build(BuildStmt {
            outs: vec![lit("z")],
            rule: "phony".into(),
            ins: vec![lit("x")],
            ..Default::default()
        }),
        Stmt::Build(BuildStmt {
            outs: vec![expr("w$v")],
            implicit_outs: vec![lit("w2")],
            rule: "r2".into(),
            order_ins: vec![lit("z")],
            vars: vec![("v".into(), expr("local"))],
            ..Default::default()
        }),
        // a block that binds one name twice: the later binding replaces the earlier
        Stmt::Build(BuildStmt {
            outs: vec![lit("dup")],
            rule: "r2".into(),
            vars: vec![("v".into(), expr("first")), ("w".into(), expr("mid")), ("v".into(), expr("second$w"))],
            ..Default::default()
        }),
        // a block that overrides rule attributes itself, next to a binding of
        // the variable they mention: edge attributes see the file scope only
        Stmt::Build(BuildStmt {
            outs: vec![lit("ovr")],
            rule: "r".into(),
            vars: vec![("v".into(), expr("blockv")), ("command".into(), expr("over $v ${v}")), ("description".into(), expr("O $v"))],
            ..Default::default()
        }),
        Stmt::Default(vec![lit("x")]),
        Stmt::Default(vec![lit("z"), expr("q$v")]),
        Stmt::Pool("pp".into(), Some(3)),
        Stmt::Binding("v".into(), expr("val$v")),
        Stmt::Binding("v".into(), Vec::new()),
        Stmt::Include(lit("inc.ninja")),
        Stmt::Include(lit("inc2.ninja")),
        Stmt::Subninja(lit("sub.ninja")),
        Stmt::Comment(" note".into()),
    ];
    // An included file is read as if its text stood in place of the include
    // line: inc.ninja re-binds a name the parent already has (and adds none),
    // inc2.ninja adds a name and re-binds one; the statements that follow the
    // include in the parent see both.
    let inc = vec![
        Stmt::Binding("v".into(), expr("${v}I")),
        Stmt::Build(BuildStmt {
            outs: vec![expr("inc$v")],
            rule: "r".into(),
            ..Default::default()
        }),
    ];
    let inc2 = vec![
        Stmt::Binding("iv".into(), expr("${v}J")),
        Stmt::Binding("v".into(), expr("w$iv")),
        Stmt::Build(BuildStmt {
            outs: vec![expr("jnc$iv")],
            rule: "r".into(),
            ..Default::default()
        }),
    ];
    let sub = vec![
        Stmt::Binding("v".into(), expr("${v}S")),
        Stmt::Build(BuildStmt {
            outs: vec![expr("sub$v")],
            rule: "r".into(),
            ins: vec![lit("x")],
            ..Default::default()
        }),
    ];
    let mut out = Vec::new();
    let k = menu.len();
    for len in 0..=max_len {
        let total = k.pow(len as u32);
        for code in 0..total {
            // v starts out non-empty so that re-binding it (also to the empty
            // string) is observable in the statements that follow
            let mut stmts = vec![
                Stmt::Binding("v".into(), expr("base")),
                Stmt::Rule("r".into(), vec![("command".into(), expr("one $in $out $v"))]),
            ];
            let mut x = code;
            for _ in 0..len {
                stmts.push(menu[x % k].clone());
                x /= k;
            }
            out.push(ManifestSet {
                files: vec![
                    ("build.ninja".into(), stmts),
                    ("inc.ninja".into(), inc.clone()),
                    ("inc2.ninja".into(), inc2.clone()),
                    ("sub.ninja".into(), sub.clone()),
                ],
            });
        }
    }
    out
}

/// C11: binding slots around one build statement.  `assign[i]` selects the
/// expression of slot i (0 = slot absent).
/// `$description` names a sibling attribute: from a rule binding it is looked
/// up like any variable (build block, then file - not the rule itself).
/// The two variables are called `outd` and `inc`: names that merely begin like
/// the implicit `$out` / `$in` must not be taken for them.
pub const C11_EXPRS: &[&str] = &["L", "$outd", "$inc", "a$outd", "${inc}b", "", "$in", "$out", "$description"];
pub const C11_SLOTS: usize = 12;

#[derive(Debug, Clone, Copy, PartialEq, Eq)]
pub enum Placement {
    Main,
    Included,
    Subninja,
    /// build.ninja includes mid.ninja, which includes child.ninja.
    IncludedTwice,
}

pub fn c11_manifest(assign: &[usize], placement: Placement) -> ManifestSet {
    assert_eq!(assign.len(), C11_SLOTS);
    let e = |i: usize| -> Option<Expr> {
        if assign[i] == 0 {
            None
        } else {
            Some(expr(C11_EXPRS[assign[i] - 1]))
        }
    };
    let mut pre: Vec<Stmt> = Vec::new();
    // slots 0,1: file-level x, y before everything
    if let Some(v) = e(0) {
        pre.push(Stmt::Binding("outd".into(), v));
    }
    if let Some(v) = e(1) {
        pre.push(Stmt::Binding("inc".into(), v));
    }
    // slot 2: x redefined (before the rule, after y)
    if let Some(v) = e(2) {
        pre.push(Stmt::Binding("outd".into(), v));
    }
    // slots 3,4: rule command / description
    let mut rule_vars = vec![(
        "command".to_string(),
        e(3).unwrap_or_else(|| expr("cmd $in $out")),
    )];
    if let Some(v) = e(4) {
        rule_vars.push(("description".into(), v));
    }
    // slots 5,6,7: build-block x, y, description
    let mut bvars = Vec::new();
    if let Some(v) = e(5) {
        bvars.push(("outd".to_string(), v));
    }
    if let Some(v) = e(6) {
        bvars.push(("inc".to_string(), v));
    }
    if let Some(v) = e(7) {
        bvars.push(("description".to_string(), v));
    }
    // slot 8: an input path using a variable
    let mut ins = vec![lit("src")];
    if let Some(v) = e(8) {
        let mut p = lit("p");
        p.extend(v);
        ins.push(p);
    }
    // slot 11: an output path using a variable
    let mut outs = vec![lit("out")];
    if let Some(v) = e(11) {
        let mut p = lit("o");
        p.extend(v);
        outs.push(p);
    }
    let build = Stmt::Build(BuildStmt {
        outs,
        rule: "r".into(),
        ins,
        vars: bvars,
        ..Default::default()
    });
    let rule = Stmt::Rule("r".into(), rule_vars);
    // slot 9: file-level x after the statement
    let mut post = Vec::new();
    if let Some(v) = e(9) {
        post.push(Stmt::Binding("outd".into(), v));
    }
    // slot 10: y defined inside the child file (visible afterwards only for
    // include); always followed by a probe build in the parent.
    let probe = Stmt::Build(BuildStmt {
        outs: vec![lit("probe")],
        rule: "show".into(),
        ..Default::default()
    });
    let show = Stmt::Rule("show".into(), vec![("command".into(), expr("x=$outd y=$inc"))]);
    match placement {
        Placement::Main => {
            let mut stmts = pre;
            stmts.push(rule);
            stmts.push(build);
            stmts.extend(post);
            if let Some(v) = e(10) {
                stmts.push(Stmt::Binding("inc".into(), v));
            }
            stmts.push(show);
            stmts.push(probe);
            ManifestSet {
                files: vec![("build.ninja".into(), stmts)],
            }
        }
        Placement::IncludedTwice => {
            let mut child = vec![rule, build];
            child.extend(post);
            if let Some(v) = e(10) {
                child.push(Stmt::Binding("inc".into(), v));
            }
            let mut stmts = pre;
            stmts.push(Stmt::Include(lit("mid.ninja")));
            stmts.push(show);
            stmts.push(probe);
            ManifestSet {
                files: vec![
                    ("build.ninja".into(), stmts),
                    ("mid.ninja".into(), vec![Stmt::Comment(" the middle file binds nothing itself".into()), Stmt::Include(lit("child.ninja"))]),
                    ("child.ninja".into(), child),
                ],
            }
        }
        Placement::Included | Placement::Subninja => {
            let mut child = vec![rule, build];
            child.extend(post);
            if let Some(v) = e(10) {
                child.push(Stmt::Binding("inc".into(), v));
            }
            let mut stmts = pre;
            stmts.push(if placement == Placement::Included {
                Stmt::Include(lit("child.ninja"))
            } else {
                Stmt::Subninja(lit("child.ninja"))
            });
            stmts.push(show);
            stmts.push(probe);
            ManifestSet {
                files: vec![("build.ninja".into(), stmts), ("child.ninja".into(), child)],
            }
        }
    }
}

/// C14: output spellings of two locations (plus a directory-like spelling).
/// The last one climbs back out of 61 directories, past the canonicaliser's
/// inline component stack, and is the location `y` again.
pub const C14_SPELLINGS: &[&str] = &["x", "./x", "d/../x", "y", "./y", "x/", "z/x", "z//x", "q/q/q/q/q/q/q/q/q/q/q/q/q/q/q/q/q/q/q/q/q/q/q/q/q/q/q/q/q/q/q/q/q/q/q/q/q/q/q/q/q/q/q/q/q/q/q/q/q/q/q/q/q/q/q/q/q/q/q/q/q/../../../../../../../../../../../../../../../../../../../../../../../../../../../../../../../../../../../../../../../../../../../../../../../../../../../../../../../../../../../../../y"];

/// All ways to fill `n` output positions from the spellings, each explicit
/// (false) or implicit (true) -- implicit ones must come after explicit ones.
pub fn c14_out_lists(max_len: usize) -> Vec<(Vec<Expr>, Vec<Expr>)> {
    let k = C14_SPELLINGS.len();
    let mut out = Vec::new();
    for len in 1..=max_len {
        for code in 0..k.pow(len as u32) {
            let mut names = Vec::new();
            let mut x = code;
            for _ in 0..len {
                names.push(C14_SPELLINGS[x % k]);
                x /= k;
            }
            // split point: first `e` are explicit (at least one explicit)
            for e in 1..=len {
                out.push((
                    names[..e].iter().map(|s| lit(s)).collect(),
                    names[e..].iter().map(|s| lit(s)).collect(),
                ));
            }
        }
    }
    out
}
