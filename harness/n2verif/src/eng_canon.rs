//! C13 (and the canonicaliser part of C12): every path string up to a length
//! bound over small alphabets, compared with the reference canonicaliser and
//! checked against the algebraic clauses of the property.

use crate::worker::{catch, Ctx};
use serde_json::{json, Value};
use vcore::enumerate::{count_upto, for_range, shard_range};
use vcore::refcanon;
use vcore::report::ShardResult;

const ALPHA_ASCII: &[&str] = &["a", "b", ".", "/", "\\"];
const ALPHA_UTF8: &[&str] = &["é", "€", ".", "/", "\\"];

pub fn jobs(tier: crate::worker::Tier) -> Vec<(String, u64)> {
    vec![
        (format!("canon:ascii:{}", tier.pick(9, 12)), 16),
        (format!("canon:utf8:{}", tier.pick(7, 10)), 16),
        ("canon:deep".to_string(), 4),
    ]
}

fn build(tokens: &[&str], seq: &[u8], out: &mut String) {
    out.clear();
    for &s in seq {
        out.push_str(tokens[s as usize]);
    }
}

/// Checks one path; `deep_ok` says whether it is within n2's supported depth.
pub fn check_path(path: &str, res: &mut ShardResult, job: &str, allow_deep_panic: bool) {
    res.evaluations += 1;
    let input = path.as_bytes();
    let depth = refcanon::Resolved::depth_needed(input);
    let r = catch(|| n2::canon::to_owned_canon_path(path));
    let replay = || json!({"job": job, "path": path});
    let got = match r {
        Ok(g) => g,
        Err(p) => {
            if depth > 60 && allow_deep_panic {
                res.outcome("deep-panic-outside-C13-bound");
                return;
            }
            res.violation(
                &p.key(),
                || format!("canonicalize_path({:?}) panicked: {} at {}", path, p.message, p.location),
                replay,
            );
            return;
        }
    };
    if std::str::from_utf8(got.as_bytes()).is_err() {
        let bytes = got.as_bytes().to_vec();
        std::mem::forget(got); // not a valid String; do not touch it further
        res.violation(
            "canon-produced-invalid-utf8",
            || format!("canonicalize_path({:?}) produced the byte string {:?}, which is not UTF-8", path, bytes),
            replay,
        );
        return;
    }
    let expect = refcanon::canon(input);
    if got.as_bytes() != expect.as_slice() {
        res.violation(
            "canon-differs-from-reference",
            || {
                format!(
                    "canonicalize_path({:?}) = {:?}, reference component walk gives {:?}",
                    path,
                    got,
                    String::from_utf8_lossy(&expect)
                )
            },
            replay,
        );
        return;
    }
    if got != path {
        res.nontrivial += 1;
    }
    // Clauses of the property, evaluated on n2's own output.
    if let Some(clause) = refcanon::check_canonical_form(input, got.as_bytes()) {
        res.violation(
            &format!("canon-form:{}", clause),
            || format!("canonicalize_path({:?}) = {:?}: {}", path, got, clause),
            replay,
        );
        return;
    }
    let again = catch(|| n2::canon::to_owned_canon_path(got.clone()));
    match again {
        Ok(a) if a == got => {}
        Ok(a) => {
            res.violation(
                "canon-not-idempotent",
                || format!("canon({:?}) = {:?} but canon of that = {:?}", path, got, a),
                replay,
            );
            return;
        }
        Err(p) => {
            res.violation(
                &p.key(),
                || format!("canonicalize_path({:?}) (second application) panicked: {}", got, p.message),
                replay,
            );
            return;
        }
    }
    let loc_in = refcanon::resolve(input).location();
    let loc_out = refcanon::resolve(got.as_bytes()).location();
    if loc_in != loc_out {
        res.violation(
            "canon-changes-location",
            || format!("{:?} denotes {:?} but its canonical form {:?} denotes {:?}", path, loc_in, got, loc_out),
            replay,
        );
        return;
    }
    let class = if got == "." {
        "dot"
    } else if loc_out.updirs > 0 {
        "updirs"
    } else if loc_out.rooted {
        "rooted"
    } else if loc_out.trailing {
        "trailing"
    } else {
        "plain"
    };
    res.outcome(class);
}

fn deep_paths(f: &mut dyn FnMut(&str)) {
    // n components (55..=63), each "a", with up to two special components.
    let specials = [".", "..", "", "bb", "é"];
    for n in 55..=63usize {
        for sep in ["/", "\\"] {
            let mk = |subs: &[(usize, &str)], trailing: bool, rooted: bool| {
                let mut comps: Vec<&str> = vec!["a"; n];
                for &(i, s) in subs {
                    comps[i] = s;
                }
                let mut p = String::new();
                if rooted {
                    p.push_str(sep);
                }
                p.push_str(&comps.join(sep));
                if trailing {
                    p.push_str(sep);
                }
                p
            };
            for rooted in [false, true] {
                for trailing in [false, true] {
                    f(&mk(&[], trailing, rooted));
                    let positions = [0, 1, n / 2, n - 2, n - 1];
                    for &i in &positions {
                        for s in specials {
                            f(&mk(&[(i, s)], trailing, rooted));
                            for &j in &positions {
                                if j <= i {
                                    continue;
                                }
                                for t in specials {
                                    f(&mk(&[(i, s), (j, t)], trailing, rooted));
                                }
                            }
                        }
                    }
                }
            }
        }
    }
}

pub fn run(ctx: &mut Ctx) -> ShardResult {
    let mut res = ShardResult::default();
    if let Some(case) = &ctx.replay {
        let path = case["path"].as_str().expect("path").to_string();
        check_path(&path, &mut res, &ctx.job, false);
        return res;
    }
    let parts: Vec<&str> = ctx.job.split(':').collect();
    match parts[1] {
        "ascii" | "utf8" => {
            let tokens = if parts[1] == "ascii" { ALPHA_ASCII } else { ALPHA_UTF8 };
            let max: u32 = parts[2].parse().expect("length bound");
            let k = tokens.len() as u64;
            let total = count_upto(k, 1, max);
            let (lo, hi) = shard_range(total, ctx.shard, ctx.nshards);
            let mut path = String::new();
            let job = ctx.job.clone();
            for_range(k, 1, max, lo, hi, |idx, seq| {
                if ctx.skip(idx) {
                    return;
                }
                build(tokens, seq, &mut path);
                ctx.marker.set(idx, path.as_bytes());
                check_path(&path, &mut res, &job, false);
                if idx % 400_003 == 0 {
                    let p = path.clone();
                    res.sample(|| json!({"path": p, "canon": n2::canon::to_owned_canon_path(p.clone())}));
                }
            });
        }
        "deep" => {
            let mut idx = 0u64;
            let job = ctx.job.clone();
            let (shard, nshards) = (ctx.shard, ctx.nshards);
            deep_paths(&mut |p| {
                idx += 1;
                if idx % nshards != shard || ctx.skip(idx) {
                    return;
                }
                ctx.marker.set(idx, p.as_bytes());
                // Paths needing more than 60 stacked components are outside
                // C13's bound (they are C12's business).
                if refcanon::Resolved::depth_needed(p.as_bytes()) > 60 {
                    res.outcome("skipped-over-60-components");
                    return;
                }
                check_path(p, &mut res, &job, false);
                if idx % 4001 == 0 {
                    res.sample(|| json!({"path": p}));
                }
            });
        }
        other => panic!("unknown canon job {}", other),
    }
    res
}

pub fn case_from_marker(job: &str, _index: u64, bytes: &[u8]) -> Value {
    json!({"job": job, "path": String::from_utf8_lossy(bytes)})
}
