//! n2verif: bounded exhaustive exploration of evmar/n2 (see /verif/DESIGN.md).
//!
//!   n2verif check <ID> <quick|thorough>     run the registered check of a property
//!   n2verif replay <file>                   re-run one recorded case
//!   n2verif worker ...                      (internal) one shard of one job

mod checks;
mod driver;
mod eng_canon;
mod eng_crash;
mod eng_dbrt;
mod eng_depfile;
mod eng_hist;
mod eng_load;
mod eng_loom;
mod eng_proc;
mod eng_render;
mod eng_sched;
mod eng_total;
mod exec;
mod scen;
mod sim;
mod worker;

fn main() {
    // Line-buffered stdout is fine; n2 itself prints through println!.
    let args: Vec<String> = std::env::args().collect();
    let code = match args.get(1).map(|s| s.as_str()) {
        Some("check") => {
            let id = args.get(2).expect("property id");
            let tier = args.get(3).map(|s| s.as_str()).unwrap_or("quick");
            driver::run_check(id, tier)
        }
        Some("worker") => worker::worker_main(&args[2..]),
        Some("replay") => {
            let file = args.get(2).expect("replay file");
            driver::run_replay(file)
        }
        _ => {
            eprintln!("usage: n2verif check <ID> <quick|thorough> | replay <file>");
            2
        }
    };
    std::process::exit(code);
}
