use crate::worker::Ctx;
use vcore::report::ShardResult;

pub fn run(_ctx: &mut Ctx) -> ShardResult {
    unimplemented!("engine load")
}

pub fn jobs_nodeid(_tier: crate::worker::Tier) -> Vec<(String, u64)> {
    vec![]
}
