//! C10 / C11 / C14 (and the node-identity half of C13): manifests generated
//! from abstract descriptions, under systematically varied spellings, loaded
//! by the real loader and compared with a reference loader.

use crate::worker::{catch, Ctx, Tier};
use n2::verif::GraphDump;
use serde_json::{json, Value};
use std::collections::BTreeMap;
use vcore::enumerate::{for_deviations, for_product};
use vcore::refmanifest::*;
use vcore::report::ShardResult;

pub fn jobs_c10(tier: Tier) -> Vec<(String, u64)> {
    vec![
        (format!("load:shapes:{}", tier.pick(1, 2)), 16),
        (format!("load:attrs:{}", tier.pick(1, 2)), 16),
        (format!("load:seq:{}:{}", tier.pick(2, 3), tier.pick(1, 1)), 16),
        ("load:pairs".into(), 16),
    ]
}

pub fn jobs_c11(tier: Tier) -> Vec<(String, u64)> {
    vec![(format!("load:scope:{}", tier.pick(4, 5)), 16)]
}

pub fn jobs_c14(tier: Tier) -> Vec<(String, u64)> {
    vec![(format!("load:dups:{}", tier.pick(3, 4)), 16)]
}

pub fn jobs_nodeid(_tier: Tier) -> Vec<(String, u64)> {
    vec![("load:nodeid".into(), 8), ("load:nodeid-dep".into(), 16)]
}

/// Token lists of all files of a set, plus where each file's choices start.
struct Spelled {
    names: Vec<String>,
    toks: Vec<Vec<Tok>>,
    radices: Vec<usize>,
    starts: Vec<usize>,
}

fn spell_set(set: &ManifestSet) -> Spelled {
    let mut s = Spelled {
        names: Vec::new(),
        toks: Vec::new(),
        radices: Vec::new(),
        starts: Vec::new(),
    };
    for (name, stmts) in &set.files {
        let t = file_tokens(stmts);
        s.names.push(name.clone());
        s.starts.push(s.radices.len());
        s.radices.extend(radices(&t));
        s.toks.push(t);
    }
    s
}

struct Rendered {
    texts: Vec<String>,
    lines: BTreeMap<String, BTreeMap<usize, usize>>,
}

fn render_set(s: &Spelled, choice: &[usize]) -> Rendered {
    let mut r = Rendered {
        texts: Vec::new(),
        lines: BTreeMap::new(),
    };
    for (i, t) in s.toks.iter().enumerate() {
        let end = s.starts.get(i + 1).copied().unwrap_or(s.radices.len());
        let (text, lines) = render(t, &choice[s.starts[i]..end]);
        r.lines.insert(s.names[i].clone(), lines);
        r.texts.push(text);
    }
    r
}

fn compare_build(i: usize, n: &n2::verif::BuildDump, r: &RefBuild, check_location: bool) -> Option<String> {
    macro_rules! cmp {
        ($field:literal, $a:expr, $b:expr) => {
            if $a != $b {
                return Some(format!("build {}: {} is {:?}, expected {:?}", i, $field, $a, $b));
            }
        };
    }
    if check_location {
        cmp!("location", n.location, r.location);
    }
    cmp!("outs", n.outs, r.outs);
    cmp!("explicit out count", n.explicit_outs, r.explicit_outs);
    cmp!("ins", n.ins, r.ins);
    cmp!("explicit in count", n.explicit_ins, r.explicit_ins);
    cmp!("implicit in count", n.implicit_ins, r.implicit_ins);
    cmp!("order-only in count", n.order_only_ins, r.order_only_ins);
    cmp!("command", n.cmdline, r.cmdline);
    cmp!("description", n.desc, r.desc);
    cmp!("depfile", n.depfile, r.depfile);
    cmp!("deps=msvc", n.parse_showincludes, r.parse_showincludes);
    cmp!("rspfile", n.rspfile, r.rspfile);
    cmp!("pool", n.pool, r.pool);
    cmp!("hide_success", n.hide_success, r.hide_success);
    cmp!("hide_progress", n.hide_progress, r.hide_progress);
    None
}

fn compare_graph(n: &GraphDump, r: &RefGraph) -> Option<String> {
    if n.builds.len() != r.builds.len() {
        return Some(format!("{} build statements loaded, expected {}", n.builds.len(), r.builds.len()));
    }
    for (i, (a, b)) in n.builds.iter().zip(&r.builds).enumerate() {
        if let Some(d) = compare_build(i, a, b, true) {
            return Some(d);
        }
    }
    if n.defaults != r.defaults {
        return Some(format!("defaults are {:?}, expected {:?}", n.defaults, r.defaults));
    }
    if n.pools != r.pools {
        return Some(format!("pools are {:?}, expected {:?}", n.pools, r.pools));
    }
    if n.builddir != r.builddir {
        return Some(format!("builddir is {:?}, expected {:?}", n.builddir, r.builddir));
    }
    // Internal consistency of the file table: one node per name, producer and
    // dependents agree with the statements.
    let mut seen = std::collections::BTreeSet::new();
    for (name, _, _) in &n.files {
        if !seen.insert(name) {
            return Some(format!("two graph nodes named {:?}", name));
        }
    }
    for (bi, b) in n.builds.iter().enumerate() {
        for o in &b.outs {
            match n.files.iter().find(|f| f.0 == *o) {
                Some(f) if f.1 == Some(bi) => {}
                other => return Some(format!("output {:?} of build {} has producer {:?}", o, bi, other.map(|f| f.1))),
            }
        }
        for inp in &b.ins {
            match n.files.iter().find(|f| f.0 == *inp) {
                Some(f) if f.2.contains(&bi) => {}
                _ => return Some(format!("input {:?} of build {} does not list it as dependent", inp, bi)),
            }
        }
    }
    None
}

fn error_matches(msg: &str, e: &RefError) -> bool {
    match e {
        RefError::UnknownRule(r) => msg.contains(&format!("unknown rule {:?}", r)),
        RefError::DuplicateOutput { name, first, second } => {
            msg.contains(&format!("{}: {:?} is already an output at {}", second, name, first))
        }
        RefError::InvalidDeps(d) => msg.contains(&format!("invalid deps attribute {:?}", d)),
        RefError::RspfileMismatch => msg.contains("rspfile and rspfile_content need to be both specified"),
        RefError::EmptyPath => msg.contains("empty"),
        RefError::MissingInclude(p) => msg.contains(&format!("read {}", p)),
        RefError::IncludeCycle(_) => msg.contains("cycle") || msg.contains("recursi"),
    }
}

struct Checker<'a> {
    res: &'a mut ShardResult,
    job: String,
    last_written: BTreeMap<String, String>,
}

impl<'a> Checker<'a> {
    fn write_children(&mut self, s: &Spelled, r: &Rendered) {
        for i in 1..s.names.len() {
            let name = &s.names[i];
            if self.last_written.get(name) != Some(&r.texts[i]) {
                std::fs::write(name, &r.texts[i]).expect("write included file");
                self.last_written.insert(name.clone(), r.texts[i].clone());
            }
        }
    }

    /// Loads one spelling and compares it with the reference.  Returns the
    /// dump when it loaded and matched.
    fn check(&mut self, set: &ManifestSet, s: &Spelled, choice: &[usize], family: &str, id: &Value) -> Option<GraphDump> {
        self.res.evaluations += 1;
        let r = render_set(s, choice);
        self.write_children(s, &r);
        let expected = ref_load(set, &r.lines);
        let text = &r.texts[0];
        let got = catch(|| n2::verif::load_bytes("build.ninja", text.as_bytes()));
        let texts = r.texts.clone();
        let names = s.names.clone();
        let job = self.job.clone();
        let id = id.clone();
        let choice_v = choice.to_vec();
        let replay = move || {
            json!({"job": job, "id": id, "choice": choice_v, "files": names.iter().zip(texts.iter()).map(|(n, t)| json!([n, t])).collect::<Vec<_>>()})
        };
        let nondefault = choice.iter().filter(|&&c| c != 0).count();
        match (got, expected) {
            (Err(p), _) => {
                self.res.violation(
                    &p.key(),
                    || format!("loading panicked: {} at {}\n--- build.ninja\n{}", p.message, p.location, text),
                    replay,
                );
                None
            }
            (Ok(Ok(dump)), Ok(refg)) => match compare_graph(&dump, &refg) {
                None => {
                    if nondefault > 0 || family != "shapes" {
                        self.res.nontrivial += 1;
                    }
                    self.res.outcome(&format!("{}:ok-{}-builds", family, dump.builds.len()));
                    Some(dump)
                }
                Some(diff) => {
                    // Classify: does n2 agree with the variant in which include
                    // does not extend the includer's scope?
                    let alt = ref_load_with(set, &r.lines, false);
                    let key = match alt {
                        Ok(a) if compare_graph(&dump, &a).is_none() => {
                            "include-does-not-extend-includer-scope".to_string()
                        }
                        _ => format!("{}:graph-differs-from-declared", family),
                    };
                    self.res.violation(
                        &key,
                        || format!("{}\n--- build.ninja\n{}", diff, text),
                        replay,
                    );
                    None
                }
            },
            (Ok(Err(e)), Ok(_)) => {
                let msg = e.to_string();
                self.res.violation(
                    &format!("{}:valid-manifest-rejected", family),
                    || format!("rejected with {:?}\n--- build.ninja\n{}", msg, text),
                    replay,
                );
                None
            }
            (Ok(Ok(dump)), Err(re)) => {
                self.res.violation(
                    &format!("{}:invalid-manifest-accepted", family),
                    || format!("expected error {:?} but loaded {} builds\n--- build.ninja\n{}", re, dump.builds.len(), text),
                    replay,
                );
                None
            }
            (Ok(Err(e)), Err(re)) => {
                let msg = e.to_string();
                if error_matches(&msg, &re) {
                    self.res.nontrivial += 1;
                    self.res.outcome(&format!("{}:err-{}", family, format!("{:?}", re).split(['(', ' ', '{']).next().unwrap_or("")));
                } else {
                    self.res.violation(
                        &format!("{}:wrong-error", family),
                        || format!("expected {:?}, got {:?}\n--- build.ninja\n{}", re, msg, text),
                        replay,
                    );
                }
                None
            }
        }
    }
}

fn check_corpus_entry(
    ck: &mut Checker,
    set: &ManifestSet,
    idx: usize,
    family: &str,
    choices: &mut dyn FnMut(&[usize], &mut dyn FnMut(&[usize])),
    mut mark: impl FnMut(&[usize]),
) {
    let s = spell_set(set);
    let id = json!({"index": idx});
    let mut canonical_dump: Option<GraphDump> = None;
    let mut first = true;
    let mut f = |choice: &[usize]| {
        mark(choice);
        let d = ck.check(set, &s, choice, family, &id);
        if first {
            canonical_dump = d;
            first = false;
            if idx % 211 == 0 {
                let r = render_set(&s, choice);
                ck.res.sample(|| json!({"family": family, "manifest": r.texts[0]}));
            }
        } else if let (Some(c), Some(d)) = (&canonical_dump, &d) {
            // Spelling independence: identical dump except locations
            // (line numbers legitimately move with continuations).
            let mut a = c.clone();
            let mut b = d.clone();
            for x in a.builds.iter_mut().chain(b.builds.iter_mut()) {
                x.location.clear();
            }
            if a != b {
                let r = render_set(&s, choice);
                let job = ck.job.clone();
                let cv = choice.to_vec();
                ck.res.violation(
                    &format!("{}:spelling-dependent", family),
                    || format!("dump differs from the canonical spelling's\n--- build.ninja\n{}", r.texts[0]),
                    || json!({"job": job, "id": {"index": idx}, "choice": cv, "files": [["build.ninja", r.texts[0]]]}),
                );
            }
        }
    };
    choices(&s.radices, &mut f);
}

fn run_corpus(ctx: &mut Ctx, res: &mut ShardResult, corpus: Vec<ManifestSet>, dev: Option<usize>, family: &str) {
    let mut ck = Checker {
        res,
        job: ctx.job.clone(),
        last_written: BTreeMap::new(),
    };
    if let Some(case) = ctx.replay.clone() {
        let idx = case["id"]["index"].as_u64().expect("index") as usize;
        let choice: Vec<usize> = case["choice"].as_array().expect("choice").iter().map(|x| x.as_u64().unwrap() as usize).collect();
        let set = &corpus[idx];
        check_corpus_entry(&mut ck, set, idx, family, &mut |radices, f| {
            f(&vec![0; radices.len()]);
            if choice.iter().any(|&c| c != 0) {
                f(&choice);
            }
        }, |_| {});
        return;
    }
    for (idx, set) in corpus.iter().enumerate() {
        if idx as u64 % ctx.nshards != ctx.shard {
            continue;
        }
        let marker = &ctx.marker;
        check_corpus_entry(&mut ck, set, idx, family, &mut |radices, f| match dev {
            Some(d) => for_deviations(radices, d, f),
            None => for_product(radices, f),
        }, |choice| marker.set(idx as u64, format!("{} #{} {:?}", family, idx, choice).as_bytes()));
    }
}

/// All pairs of deviations restricted to the slots of the build line, on a
/// few representative shapes (covers two-slot interactions in quick tier).
fn corpus_pairs() -> Vec<ManifestSet> {
    corpus_build_shapes()
        .into_iter()
        .enumerate()
        .filter(|(i, _)| {
            // consecutive entries share a shape (one per path rotation);
            // take rotation 2 of every fifth shape
            let n = PATHS.len();
            i % n == 2 && (i / n) % 5 == 0
        })
        .map(|(_, m)| m)
        .collect()
}

fn scope_job(ctx: &mut Ctx, res: &mut ShardResult, max_present: usize) {
    let mut ck = Checker {
        res,
        job: ctx.job.clone(),
        last_written: BTreeMap::new(),
    };
    let radices = vec![C11_EXPRS.len() + 1; C11_SLOTS];
    let mut idx = 0u64;
    let (shard, nshards) = (ctx.shard, ctx.nshards);
    if let Some(case) = ctx.replay.clone() {
        let assign: Vec<usize> = case["id"]["assign"].as_array().expect("assign").iter().map(|x| x.as_u64().unwrap() as usize).collect();
        let placement = match case["id"]["placement"].as_u64().unwrap_or(0) {
            0 => Placement::Main,
            1 => Placement::Included,
            3 => Placement::IncludedTwice,
            _ => Placement::Subninja,
        };
        let set = c11_manifest(&assign, placement);
        let s = spell_set(&set);
        let choice = vec![0; s.radices.len()];
        ck.check(&set, &s, &choice, "scope", &case["id"]);
        return;
    }
    for_deviations(&radices, max_present, &mut |assign| {
        idx += 1;
        if idx % nshards != shard {
            return;
        }
        // $in/$out are magic only in rule-level slots (3, 4); elsewhere they
        // are ordinary (undefined) names, which is worth checking too -- but
        // not in path slots, where an empty expansion is an error.
        for (slot, &a) in assign.iter().enumerate() {
            if a >= 7 && (slot == 8 || slot == 11) {
                return;
            }
        }
        for placement in [Placement::Main, Placement::Included, Placement::Subninja, Placement::IncludedTwice] {
            let set = c11_manifest(assign, placement);
            let s = spell_set(&set);
            let choice = vec![0; s.radices.len()];
            ctx.marker.set(idx, format!("scope {:?} {:?}", assign, placement).as_bytes());
            let id = json!({"assign": assign, "placement": placement as usize});
            ck.check(&set, &s, &choice, "scope", &id);
            if idx % 20_011 == 0 && placement == Placement::Included {
                let r = render_set(&s, &choice);
                ck.res.sample(|| json!({"family": "scope", "build.ninja": r.texts[0], "child.ninja": r.texts.get(1)}));
            }
        }
    });
}

// --- C14 -------------------------------------------------------------------

static SAVED_STDOUT: std::sync::atomic::AtomicI32 = std::sync::atomic::AtomicI32::new(-1);

pub fn capture_stdout_end() {
    use std::io::Write;
    let _ = std::io::stdout().flush();
    let saved = SAVED_STDOUT.swap(-1, std::sync::atomic::Ordering::SeqCst);
    if saved >= 0 {
        unsafe {
            libc::dup2(saved, 1);
            libc::close(saved);
        }
    }
}

pub fn capture_stdout_begin() {
    use std::os::fd::AsRawFd;
    use std::io::Write;
    let _ = std::io::stdout().flush();
    let saved = unsafe { libc::dup(1) };
    SAVED_STDOUT.store(saved, std::sync::atomic::Ordering::SeqCst);
    let f = std::fs::OpenOptions::new()
        .read(true)
        .write(true)
        .create(true)
        .truncate(true)
        .open("stdout.cap")
        .expect("open capture file");
    unsafe {
        libc::dup2(f.as_raw_fd(), 1);
    }
}

pub fn capture_stdout_reset() {
    unsafe {
        libc::ftruncate(1, 0);
        libc::lseek(1, 0, libc::SEEK_SET);
    }
}

pub fn capture_stdout_read() -> String {
    use std::io::Write;
    let _ = std::io::stdout().flush();
    std::fs::read_to_string("stdout.cap").unwrap_or_default()
}

fn dups_sets(e1: &[Expr], i1: &[Expr]) -> Vec<ManifestSet> {
    let seconds = c14_out_lists(2);
    let thirds = c14_out_lists(1);
    let rule = Stmt::Rule("r".into(), vec![("command".into(), expr("touch out"))]);
    let b1 = BuildStmt {
        outs: e1.to_vec(),
        implicit_outs: i1.to_vec(),
        rule: "r".into(),
        ..Default::default()
    };
    // One statement alone, then with a second (same file / included /
    // subninja'd before), then with a third.
    let mut sets: Vec<ManifestSet> = vec![ManifestSet {
        files: vec![("build.ninja".into(), vec![rule.clone(), Stmt::Build(b1.clone())])],
    }];
    for (e2, i2) in &seconds {
        let b2 = BuildStmt {
            outs: e2.clone(),
            implicit_outs: i2.clone(),
            rule: "r".into(),
            ..Default::default()
        };
        sets.push(ManifestSet {
            files: vec![(
                "build.ninja".into(),
                vec![rule.clone(), Stmt::Build(b1.clone()), Stmt::Build(b2.clone())],
            )],
        });
        sets.push(ManifestSet {
            files: vec![
                (
                    "build.ninja".into(),
                    vec![rule.clone(), Stmt::Build(b1.clone()), Stmt::Include(lit("inc.ninja"))],
                ),
                ("inc.ninja".into(), vec![Stmt::Build(b2.clone())]),
            ],
        });
        sets.push(ManifestSet {
            files: vec![
                (
                    "build.ninja".into(),
                    vec![rule.clone(), Stmt::Subninja(lit("inc.ninja")), Stmt::Build(b1.clone())],
                ),
                ("inc.ninja".into(), vec![Stmt::Build(b2.clone())]),
            ],
        });
        if e2.len() == 1 && i2.is_empty() {
            // The second statement as a phony alias that names itself as its
            // input (`build x: phony x`, as old CMake writes them): still a
            // producer of x, before or after the first statement.
            let b2p = BuildStmt {
                outs: e2.clone(),
                rule: "phony".into(),
                ins: e2.clone(),
                ..Default::default()
            };
            sets.push(ManifestSet {
                files: vec![("build.ninja".into(), vec![rule.clone(), Stmt::Build(b1.clone()), Stmt::Build(b2p.clone())])],
            });
            sets.push(ManifestSet {
                files: vec![("build.ninja".into(), vec![rule.clone(), Stmt::Build(b2p.clone()), Stmt::Build(b1.clone())])],
            });
            sets.push(ManifestSet {
                files: vec![
                    (
                        "build.ninja".into(),
                        vec![rule.clone(), Stmt::Build(b1.clone()), Stmt::Include(lit("inc.ninja"))],
                    ),
                    ("inc.ninja".into(), vec![Stmt::Build(b2p.clone())]),
                ],
            });
        }
        if e1.len() + i1.len() <= 2 {
            for (e3, _) in &thirds {
                let b3 = BuildStmt {
                    outs: e3.clone(),
                    rule: "r".into(),
                    ..Default::default()
                };
                sets.push(ManifestSet {
                    files: vec![(
                        "build.ninja".into(),
                        vec![rule.clone(), Stmt::Build(b1.clone()), Stmt::Build(b2.clone()), Stmt::Build(b3)],
                    )],
                });
            }
        }
    }
    sets
}

fn dups_check(set: &ManifestSet, id: &Value, job: &str, res: &mut ShardResult) {
    let s = spell_set(set);
    let choice = vec![0; s.radices.len()];
    capture_stdout_reset();
    let before = res.violation_count;
    let dump = {
        let mut ck = Checker {
            res,
            job: job.to_string(),
            last_written: BTreeMap::new(),
        };
        ck.check(set, &s, &choice, "dups", id)
    };
    if res.violation_count != before {
        return;
    }
    let r = render_set(&s, &choice);
    let refg = ref_load(set, &r.lines);
    let out = capture_stdout_read();
    let warns = out
        .lines()
        .filter(|l| l.starts_with("n2: warn:") && l.contains("is repeated in output list"))
        .count();
    if let (Some(dump), Ok(refg)) = (&dump, &refg) {
        // Accepted: a warning iff something was repeated; explicit count
        // within bounds (the raw count is what is dumped).
        let repeated = refg.builds.iter().any(|b| b.repeated_output);
        let text = r.texts[0].clone();
        let rp = || json!({"job": job, "id": id, "files": [["build.ninja", text]]});
        if repeated != (warns > 0) {
            res.violation(
                "dups:warning-mismatch",
                || format!("repeated output: {}, warnings printed: {}\n{}", repeated, warns, text),
                rp,
            );
        }
        for b in &dump.builds {
            if b.explicit_outs > b.outs.len() {
                res.violation(
                    "dups:explicit-count-exceeds-outputs",
                    || format!("explicit out count {} > {} outputs\n{}", b.explicit_outs, b.outs.len(), text),
                    rp,
                );
            }
        }
    }
}

fn dups_job(ctx: &mut Ctx, res: &mut ShardResult, max_len: usize) {
    capture_stdout_begin();
    let firsts = c14_out_lists(max_len);
    let job = ctx.job.clone();
    if let Some(case) = ctx.replay.clone() {
        let i = case["id"]["first"].as_u64().expect("first") as usize;
        let k = case["id"]["set"].as_u64().expect("set") as usize;
        let (e1, i1) = &firsts[i];
        let sets = dups_sets(e1, i1);
        dups_check(&sets[k], &case["id"], &job, res);
        capture_stdout_end();
        return;
    }
    for (i, (e1, i1)) in firsts.iter().enumerate() {
        if i as u64 % ctx.nshards != ctx.shard {
            continue;
        }
        let sets = dups_sets(e1, i1);
        for (k, set) in sets.iter().enumerate() {
            ctx.marker.set(i as u64, format!("dups first={} set={}", i, k).as_bytes());
            let id = json!({"first": i, "set": k});
            dups_check(set, &id, &job, res);
            if i % 97 == 0 && k == 7 {
                let (t, _) = render_canonical(&set.files[0].1);
                res.sample(|| json!({"family": "dups", "manifest": t}));
            }
        }
    }
    capture_stdout_end();
}

// --- C13 node identity -----------------------------------------------------

const NODE_SPELLINGS: &[&str] = &[
    // location a/b
    "a/b", "./a/b", "a//b", "a/./b", "a/x/../b", "x/../a/b", "./a/./b", "a/x/y/../../b", "x/./../a/b", "a\\b",
    "a\\.\\b", "a\\x\\..\\b", "a\\\\b", ".\\a\\b",
    // location c
    "c", "./c", "x/../c", "././c", "x/y/../../c", "x//..//c", ".//c", "x/../y/../c", "./x/../c", "c/",
    "x\\..\\c", ".\\c", "c\\",
    // location ../d
    "../d", "./../d", "x/../../d", "../x/../d", ".././d", "..//d", "../d/.", "x/../../y/../d", "./x/../../d", "..\\d",
];

fn nodeid_job(ctx: &mut Ctx, res: &mut ShardResult) {
    crate::exec::install_hooks();
    let job = ctx.job.clone();
    let canon = |s: &str| String::from_utf8(vcore::refcanon::canon(s.as_bytes())).unwrap();
    let mut idx = 0u64;
    let only: Option<(String, String)> = ctx.replay.as_ref().map(|c| {
        (c["p"].as_str().unwrap_or("").to_string(), c["q"].as_str().unwrap_or("").to_string())
    });
    for p in NODE_SPELLINGS {
        for q in NODE_SPELLINGS {
            idx += 1;
            match &only {
                Some((a, b)) => {
                    if a != p || b != q {
                        continue;
                    }
                }
                None => {
                    if idx % ctx.nshards != ctx.shard {
                        continue;
                    }
                }
            }
            ctx.marker.set(idx, format!("{} {}", p, q).as_bytes());
            let same = canon(p) == canon(q);
            // (1) manifest output p, manifest input q.
            res.evaluations += 1;
            let text = format!("rule r\n  command = c\nbuild {}: r\nbuild out: r {}\n", p, q);
            let replay = || json!({"job": job, "p": p, "q": q});
            match catch(|| n2::verif::load_bytes("build.ninja", text.as_bytes())) {
                Ok(Ok(d)) => {
                    let qn = &d.builds[1].ins[0];
                    let node = d.files.iter().find(|f| f.0 == *qn);
                    let produced_by_first = node.map(|f| f.1 == Some(0)).unwrap_or(false);
                    let dup_names = d.files.iter().filter(|f| f.0 == *qn).count() != 1;
                    if produced_by_first != same || dup_names {
                        res.violation(
                            "nodeid:manifest-spellings",
                            || format!("output {:?} and input {:?}: same location = {}, but input node {:?} has producer {:?}", p, q, same, qn, node.map(|f| f.1)),
                            replay,
                        );
                        continue;
                    }
                    if p != q {
                        res.nontrivial += 1;
                    }
                    res.outcome(if same { "manifest:same-node" } else { "manifest:distinct-nodes" });
                }
                other => {
                    res.violation(
                        "nodeid:load-failed",
                        || format!("{:?}", other.map(|r| r.map(|_| ()).map_err(|e| e.to_string())).map_err(|p| p.message)),
                        replay,
                    );
                    continue;
                }
            }
            // (2) manifest output p, command-line target q (all phony, so
            // nothing runs).
            res.evaluations += 1;
            crate::exec::clear_dir();
            std::fs::write("build.ninja", format!("build {}: phony\n", p)).unwrap();
            let r = catch(|| {
                n2::verif::verif_build(n2::verif::BuildOpts {
                    targets: vec![q.to_string()],
                    parallelism: 1,
                    ..Default::default()
                })
            });
            match r {
                Ok(Ok(Some(0))) if same => res.outcome("target:resolved"),
                Ok(Err(e)) if !same && e.to_string().contains("unknown path requested") => {
                    res.outcome("target:unknown")
                }
                other => res.violation(
                    "nodeid:target-spelling",
                    || format!("manifest output {:?}, requested target {:?} (same location = {}): {:?}", p, q, same, other.map(|r| r.map_err(|e| e.to_string())).map_err(|p| p.message)),
                    replay,
                ),
            }
        }
    }
}

/// Node identity between a declared input (spelling p) and a path reported by
/// the command through its depfile or /showIncludes output (spelling q): if
/// they are one location the report adds nothing to the step's discovered
/// list, otherwise exactly the canonical form of q.
fn nodeid_dep_job(ctx: &mut Ctx, res: &mut ShardResult) {
    use crate::exec::{self, BuildResult, ExecConfig};
    use crate::sim::Sim;
    use vcore::project::{EdgeKind, Project, Step};
    exec::install_hooks();
    let job = ctx.job.clone();
    let canon = |s: &str| String::from_utf8(vcore::refcanon::canon(s.as_bytes())).unwrap();
    let inside = |s: &str| !s.starts_with("..") && !s.ends_with('/') && !s.ends_with('\\') && !canon(s).starts_with("..");
    let spellings: Vec<&str> = NODE_SPELLINGS.iter().copied().filter(|s| inside(s)).collect();
    let only: Option<(String, String, bool)> = ctx.replay.as_ref().map(|c| {
        (c["p"].as_str().unwrap_or("").to_string(), c["q"].as_str().unwrap_or("").to_string(), c["msvc"].as_bool().unwrap_or(false))
    });
    let mut idx = 0u64;
    for p in &spellings {
        for q in &spellings {
            for msvc in [false, true] {
                idx += 1;
                match &only {
                    Some((a, b, m)) => {
                        if a != p || b != q || *m != msvc {
                            continue;
                        }
                    }
                    None => {
                        if idx % ctx.nshards != ctx.shard {
                            continue;
                        }
                    }
                }
                ctx.marker.set(idx, format!("{} {} {}", p, q, msvc).as_bytes());
                res.evaluations += 1;
                exec::clear_dir();
                let mut obj = Step {
                    outs: vec!["obj".into()],
                    cmdline: "CC".into(),
                    ins: vec![(EdgeKind::Explicit, "src.c".into()), (EdgeKind::Implicit, canon(p))],
                    ..Default::default()
                };
                if msvc {
                    obj.msvc = true;
                } else {
                    obj.depfile = Some("obj.d".into());
                }
                // The manifest spells the declared input as p.
                let project = Project {
                    steps: vec![obj],
                    ..Default::default()
                };
                let mut sim = Sim::new(project.clone());
                sim.touch("src.c");
                sim.touch(&canon(p));
                if canon(q) != canon(p) {
                    sim.touch(&canon(q));
                }
                sim.reports.insert("obj".into(), vec![q.to_string()]);
                // hand-written manifest so that p keeps its spelling
                let manifest = format!(
                    "rule cc\n  command = CC\n{}build obj: cc src.c | {}\n",
                    if msvc { "  deps = msvc\n" } else { "  depfile = obj.d\n" },
                    p
                );
                std::fs::write("build.ninja", &manifest).unwrap();
                let out = exec::run_build(
                    ExecConfig {
                        model: Box::new(sim),
                        prefix: vec![],
                        explore_order: false,
                        db_fault: None,
                        max_waits: 50,
                        record_counts: false,
                        kill_after_waits: None,
                    },
                    n2::verif::BuildOpts {
                        parallelism: 1,
                        ..Default::default()
                    },
                );
                let replay = || json!({"job": job, "p": p, "q": q, "msvc": msvc});
                if !matches!(out.result, BuildResult::Success(1)) {
                    res.violation("nodeid:dep-build-failed", || format!("declared {:?}, reported {:?}: {:?}", p, q, out.result), replay);
                    continue;
                }
                let same = canon(p) == canon(q);
                let expected: Vec<String> = if same { vec![] } else { vec![canon(q)] };
                match catch(|| n2::verif::load_disk("build.ninja")) {
                    Ok(Ok((dump, _))) => {
                        let got = dump.builds[0].discovered_ins.clone();
                        if got != expected {
                            res.violation(
                                "nodeid:reported-dependency-spelling",
                                || format!("declared input {:?}, command reported {:?} ({}): remembered dependencies {:?}, expected {:?}", p, q, if msvc { "/showIncludes" } else { "depfile" }, got, expected),
                                replay,
                            );
                            continue;
                        }
                        if p != q {
                            res.nontrivial += 1;
                        }
                        res.outcome(if same { "dep:same-node" } else { "dep:distinct-nodes" });
                    }
                    other => res.violation("nodeid:load-failed", || format!("{:?}", other.map(|r| r.map(|_| ()).map_err(|e| e.to_string())).map_err(|p| p.message)), replay),
                }
            }
        }
    }
}

pub fn run(ctx: &mut Ctx) -> ShardResult {
    let mut res = ShardResult::default();
    let job = ctx.job.clone();
    let parts: Vec<&str> = job.split(':').collect();
    let num = |i: usize| -> usize { parts.get(i).and_then(|s| s.parse().ok()).expect("job parameter") };
    match parts[1] {
        "shapes" => run_corpus(ctx, &mut res, corpus_build_shapes(), Some(num(2)), "shapes"),
        "attrs" => run_corpus(ctx, &mut res, corpus_attributes(), Some(num(2)), "attrs"),
        "seq" => run_corpus(ctx, &mut res, corpus_sequences(num(2)), Some(num(3)), "seq"),
        "pairs" => run_corpus(ctx, &mut res, corpus_pairs(), Some(2), "pairs"),
        "scope" => scope_job(ctx, &mut res, num(2)),
        "dups" => dups_job(ctx, &mut res, num(2)),
        "nodeid" => nodeid_job(ctx, &mut res),
        "nodeid-dep" => nodeid_dep_job(ctx, &mut res),
        other => panic!("unknown load job {}", other),
    }
    res
}
