//! The `sched` engine: every completion order (and every order of newly ready
//! dependents) of one invocation of the real `run::build`, for every scenario
//! of a family, under the gated executor.  Monitors for C01 C04 C05 C06 C18
//! C19 (and the regeneration half of C17) are evaluated on the event trace.

use crate::exec::{self, BuildResult, Event, ExecConfig, Point, Term};
use crate::scen::{self, Edit, Scenario};
use crate::sim::{take_sim, Outcome, Sim};
use crate::worker::{Ctx, Tier};
use n2::verif::BuildOpts;
use serde_json::{json, Value};
use std::collections::{BTreeMap, BTreeSet};
use vcore::enumerate::Fnv;
use vcore::project::{EdgeKind, Project};
use vcore::report::ShardResult;

const E4: [Option<EdgeKind>; 4] = [None, Some(EdgeKind::Explicit), Some(EdgeKind::OrderOnly), Some(EdgeKind::Validation)];
const E3: [Option<EdgeKind>; 3] = [None, Some(EdgeKind::Explicit), Some(EdgeKind::OrderOnly)];

pub fn family(name: &str) -> Vec<Scenario> {
    match name {
        "G3" => scen::family_g(3, &scen::EDGE_OPTIONS),
        "G3n" => scen::family_g_nosrc(3, &scen::EDGE_OPTIONS),
        "PX" => scen::family_px(),
        "PXd" => scen::family_pxd(),
        "PV" => scen::family_pv(),
        "RF" => scen::family_rf(),
        "RD" => scen::family_rd(),
        "W" => scen::family_w(),
        "G4" => scen::family_g(4, &E3),
        "D3" => scen::family_d(3, &E4, false),
        "D3p" => scen::family_d(3, &E3, true),
        "D4" => scen::family_d(4, &[None, Some(EdgeKind::Explicit)], true),
        "F3q" => scen::family_f(3, &E4, &[None, Some(1), Some(2)], &[Outcome::Fail, Outcome::FailAfterWrite, Outcome::Interrupt], true),
        "F3" => scen::family_f(3, &scen::EDGE_OPTIONS, &[None, Some(1), Some(2), Some(3)], &[Outcome::Fail, Outcome::FailAfterWrite, Outcome::Interrupt], true),
        "F4" => scen::family_f(4, &[None, Some(EdgeKind::Explicit)], &[None, Some(1), Some(2), Some(3)], &[Outcome::Fail], false),
        "P3" => scen::family_p(3, &[1, 2, 3]),
        "P4" => scen::family_p(4, &[2, 3, 4]),
        "V2" => scen::family_v(2),
        "V3" => scen::family_v(3),
        "T3" => scen::family_t(3, &E4),
        "R" => scen::family_r(),
        "S" => scen::family_s(),
        other => panic!("unknown scenario family {}", other),
    }
}

/// Which families a property's check runs.
pub fn jobs(prop: &str, tier: Tier) -> Vec<(String, u64)> {
    let q = |fams: &[&str]| -> Vec<(String, u64)> { fams.iter().map(|f| (format!("sched:{}", f), 16)).collect() };
    match (prop, tier) {
        ("C01", Tier::Quick) => q(&["G3", "G3n", "D3", "F3q", "S", "R"]),
        ("C01", Tier::Thorough) => q(&["G3", "G3n", "PX", "G4", "D3", "D3p", "D4", "F3", "F4", "P3", "S", "R"]),
        ("C04", Tier::Quick) => q(&["P3", "PX", "PXd", "PV", "D3p", "S", "R"]),
        ("C04", Tier::Thorough) => q(&["P3", "PX", "PXd", "PV", "P4", "D3p", "D4", "F4", "S", "R"]),
        ("C05", Tier::Quick) => q(&["F3q", "S", "P3", "PV", "RF"]),
        ("C05", Tier::Thorough) => q(&["F3", "F4", "S", "P3", "PX", "PV", "P4", "R", "RF"]),
        ("C06", Tier::Quick) => q(&["V2", "V3", "G3", "G3n", "PX", "PV", "S", "R", "P3", "F3q"]),
        ("C06", Tier::Thorough) => q(&["V2", "V3", "G3", "G3n", "PX", "G4", "D3", "D4", "F3", "S", "R", "P3", "P4", "T3"]),
        ("C17", _) => q(&["R", "RD"]),
        ("C14", _) => q(&["RD"]),
        ("C18", Tier::Quick) => q(&["T3", "R", "S", "V2"]),
        ("C18", Tier::Thorough) => q(&["T3", "R", "D3", "S", "V2", "V3"]),
        ("C19", Tier::Quick) => q(&["G3", "D3", "F3q", "P3", "PX", "S", "R", "W"]),
        ("C19", Tier::Thorough) => q(&["G3", "G3n", "PX", "W", "G4", "D3", "D3p", "F3", "P3", "P4", "S", "R", "T3"]),
        _ => vec![],
    }
}

// ---------------------------------------------------------------------------
// Running one scenario.

pub struct Prepared {
    pub snapshot: exec::Snapshot,
    pub sim: Sim,
}

fn opts(s: &Scenario) -> BuildOpts {
    BuildOpts {
        build_filename: if let Some(f) = &s.f_spelling {
            Some(f.clone())
        } else if s.manifest_name == "build.ninja" {
            None
        } else {
            Some(s.manifest_name.clone())
        },
        targets: s.targets.clone(),
        parallelism: s.j,
        failures_left: s.k,
        explain: false,
        adopt: s.adopt,
    }
}

/// Sets up the initial tree of a scenario.  Err = the prebuild did not succeed
/// (a machinery problem or a finding of its own).
pub fn prepare(s: &Scenario) -> Result<Prepared, String> {
    exec::clear_dir();
    let mut sim = Sim::new(s.project.clone());
    sim.create_sources();
    sim.write_manifest(&s.manifest_name);
    sim.reports = s.reports.clone();
    sim.restat_like = s.restat_like.clone();
    if s.prebuilt {
        // Generators regenerate identically during the prebuild.
        for (k, g) in &s.generators {
            sim.generators.insert(
                k.clone(),
                crate::sim::Generator {
                    manifest_name: g.manifest_name.clone(),
                    next: s.project.clone(),
                },
            );
        }
        let mut o = opts(s);
        o.targets = Vec::new();
        o.failures_left = None;
        o.parallelism = 1;
        o.adopt = false;
        let out = exec::run_build(
            ExecConfig {
                model: Box::new(sim),
                prefix: Vec::new(),
                explore_order: false,
                db_fault: None,
                max_waits: 1000,
                record_counts: false,
                kill_after_waits: None,
            },
            o,
        );
        match &out.result {
            BuildResult::Success(_) => {}
            other => return Err(format!("prebuild did not succeed: {:?}", other)),
        }
        sim = take_sim(out.model);
        sim.ran.clear();
    }
    for e in &s.edits {
        match e {
            Edit::Touch(f) => sim.touch(f),
            Edit::TouchMtime(f) => sim.touch_mtime(f),
            Edit::Remove(f) => sim.remove(f),
        }
    }
    sim.generators = s.generators.clone();
    sim.outcomes = s.outcomes.clone();
    sim.raw_depfile = s.raw_depfile.clone();
    Ok(Prepared {
        snapshot: exec::snapshot(),
        sim,
    })
}

pub struct Execution {
    pub result: BuildResult,
    pub trace: Vec<Event>,
    pub points: Vec<Point>,
    pub sim: Sim,
    pub diverged: Option<String>,
    pub thread_panics: Vec<crate::worker::PanicRecord>,
    /// The follow-up all-success invocation, if the scenario asks for one.
    pub followup: Option<(BuildResult, Vec<usize>)>,
}

pub fn execute(s: &Scenario, prep: &Prepared, prefix: &[usize], want_followup: bool) -> Execution {
    exec::restore(&prep.snapshot);
    let out = exec::run_build(
        ExecConfig {
            model: Box::new(prep.sim.clone()),
            prefix: prefix.to_vec(),
            explore_order: s.explore_order,
            db_fault: None,
            max_waits: 200,
            record_counts: true,
            kill_after_waits: None,
        },
        opts(s),
    );
    let sim = take_sim(out.model);
    let mut ex = Execution {
        result: out.result,
        trace: out.trace,
        points: out.points,
        sim,
        diverged: out.diverged,
        thread_panics: out.thread_panics,
        followup: None,
    };
    if want_followup && s.followup {
        let mut sim2 = ex.sim.clone();
        sim2.outcomes.clear();
        sim2.ran.clear();
        let mut o = opts(s);
        o.failures_left = None;
        o.parallelism = 1;
        let out2 = exec::run_build(
            ExecConfig {
                model: Box::new(sim2),
                prefix: Vec::new(),
                explore_order: false,
                db_fault: None,
                max_waits: 200,
                record_counts: false,
                kill_after_waits: None,
            },
            o,
        );
        let sim2 = take_sim(out2.model);
        let ran: Vec<usize> = sim2.ran.iter().filter(|r| r.generation + 1 == sim2.projects.len()).map(|r| r.step).collect();
        ex.followup = Some((out2.result, ran));
    }
    ex
}

// ---------------------------------------------------------------------------
// Analysis of a trace.

#[derive(Debug, Clone)]
pub struct StepRun {
    pub step: usize,
    pub start: usize,
    pub finish: Option<(usize, Term)>,
}

pub struct Phase<'a> {
    pub index: usize,
    pub project: &'a Project,
    pub events: &'a [Event],
    /// Offset of events[0] in the whole trace.
    pub base: usize,
    pub runs: Vec<StepRun>,
    pub wanted: BTreeSet<usize>,
    /// Starts of commands that are not steps of this phase's project.
    pub foreign_starts: Vec<String>,
}

impl<'a> Phase<'a> {
    pub fn running_at(&self, t: usize) -> Vec<usize> {
        self.runs
            .iter()
            .filter(|r| r.start < t && r.finish.map(|f| f.0 >= t).unwrap_or(true))
            .map(|r| r.step)
            .collect()
    }
    pub fn run_of(&self, step: usize) -> Option<&StepRun> {
        self.runs.iter().find(|r| r.step == step)
    }
}

pub fn phases<'a>(s: &Scenario, ex: &'a Execution) -> Vec<Phase<'a>> {
    let mut bounds: Vec<usize> = ex
        .trace
        .iter()
        .enumerate()
        .filter(|(_, e)| matches!(e, Event::RunBegin { .. }))
        .map(|(i, _)| i)
        .collect();
    bounds.push(ex.trace.len());
    let mut out = Vec::new();
    let projects = &ex.sim.projects;
    let has_manifest_target = projects[0].producer(&s.manifest_name).is_some();
    let mut reloaded = false;
    for w in 0..bounds.len().saturating_sub(1) {
        let events = &ex.trace[bounds[w]..bounds[w + 1]];
        let is_regen_phase = has_manifest_target && w == 0;
        let project: &Project = if w == 0 || !reloaded {
            &projects[0]
        } else {
            projects.last().unwrap()
        };
        let mut runs: Vec<StepRun> = Vec::new();
        let mut foreign = Vec::new();
        for (i, e) in events.iter().enumerate() {
            match e {
                Event::Start { cmdline, .. } => match project.step_by_cmdline(cmdline) {
                    Some(step) => runs.push(StepRun {
                        step,
                        start: i,
                        finish: None,
                    }),
                    None => foreign.push(cmdline.clone()),
                },
                Event::Finished { build, term } => {
                    // match by build id through the Start event
                    let cmd = events.iter().find_map(|x| match x {
                        Event::Start { build: b, cmdline } if b == build => Some(cmdline.clone()),
                        _ => None,
                    });
                    if let Some(step) = cmd.and_then(|c| project.step_by_cmdline(&c)) {
                        if let Some(r) = runs.iter_mut().rev().find(|r| r.step == step && r.finish.is_none()) {
                            r.finish = Some((i, *term));
                        }
                    }
                }
                _ => {}
            }
        }
        let wanted = if is_regen_phase {
            project.closure(&[s.manifest_name.clone()])
        } else {
            let mut targets: Vec<String> = Vec::new();
            for t in &s.targets {
                let c = vcore::refbuild::canon(t);
                if has_manifest_target && c == s.manifest_name {
                    continue;
                }
                targets.push(c);
            }
            let mut w2 = if s.targets.is_empty() || !targets.is_empty() {
                project.wanted(&targets, if has_manifest_target { Some(&s.manifest_name) } else { None })
            } else {
                BTreeSet::new()
            };
            if has_manifest_target && !reloaded {
                // The Work of the regeneration phase is reused.
                w2.extend(project.closure(&[s.manifest_name.clone()]));
            }
            w2
        };
        if is_regen_phase {
            reloaded = runs.iter().any(|r| matches!(r.finish, Some((_, Term::Success))));
        }
        out.push(Phase {
            index: w,
            project,
            events,
            base: bounds[w],
            runs,
            wanted,
            foreign_starts: foreign,
        });
    }
    out
}

type Findings = Vec<(String, String)>;

/// The properties exclude phony aliases used as dirtying inputs (finding F8:
/// such a consumer is re-run on every invocation because the alias is never
/// a file).  Steps of that kind are not judged for up-to-dateness.
fn phony_dirtying_input(p: &Project, step: usize) -> bool {
    p.steps[step]
        .dirtying_ins()
        .iter()
        .any(|f| p.producer(f).map(|q| p.steps[q].phony).unwrap_or(false))
}

fn name(p: &Project, step: usize) -> String {
    p.steps[step].outs[0].clone()
}

pub fn monitor_c01(s: &Scenario, ex: &Execution) -> Findings {
    let mut f = Findings::new();
    for ph in phases(s, ex) {
        let p = ph.project;
        let mut seen = BTreeSet::new();
        for r in &ph.runs {
            if !seen.insert(r.step) {
                f.push(("started-twice".into(), format!("phase {}: command of {} started a second time", ph.index, name(p, r.step))));
            }
        }
        for r in &ph.runs {
            let mut t_ready = 0usize;
            for q in p.ord_pred(r.step) {
                if p.steps[q].phony {
                    continue;
                }
                match ph.run_of(q) {
                    None => {} // judged up to date (C02/C03 decide whether rightly)
                    Some(qr) => {
                        if qr.start > r.start {
                            f.push(("started-before-predecessor".into(), format!("phase {}: {} started before its predecessor {} (which ran later)", ph.index, name(p, r.step), name(p, q))));
                            continue;
                        }
                        match qr.finish {
                            Some((t, Term::Success)) if t < r.start => t_ready = t_ready.max(t),
                            Some((t, term)) if t < r.start => f.push(("started-after-predecessor-failed".into(), format!("phase {}: {} started although predecessor {} ended with {:?}", ph.index, name(p, r.step), name(p, q), term))),
                            _ => f.push(("started-while-predecessor-running".into(), format!("phase {}: {} started while predecessor {} was still running", ph.index, name(p, r.step), name(p, q)))),
                        }
                    }
                }
            }
            // Validation / discovered edges impose no ordering: between the
            // moment the last ordering predecessor finished and the start,
            // n2 must not have blocked with room to run this step.
            for (i, e) in ph.events.iter().enumerate() {
                if i <= t_ready || i >= r.start {
                    continue;
                }
                if let Event::Wait { running, .. } = e {
                    if running.len() >= s.j {
                        continue;
                    }
                    let pool = p.steps[r.step].pool.clone().unwrap_or_default();
                    let depth = p.pool_depth(&pool).unwrap_or(0);
                    if depth > 0 {
                        let in_pool = ph.running_at(i).iter().filter(|&&x| p.steps[x].pool.clone().unwrap_or_default() == pool).count();
                        if in_pool >= depth {
                            continue;
                        }
                    }
                    let non_ordering: Vec<String> = ph
                        .running_at(i)
                        .iter()
                        .filter(|&&x| !p.ord_pred(r.step).contains(&x))
                        .map(|&x| name(p, x))
                        .collect();
                    f.push(("blocked-although-ready".into(), format!("phase {}: n2 blocked waiting for {:?} while {} was ready to start (all ordering predecessors done, -j and pool had room)", ph.index, non_ordering, name(p, r.step))));
                    break;
                }
            }
        }
    }
    f
}

pub fn monitor_c04(s: &Scenario, ex: &Execution) -> Findings {
    let mut f = Findings::new();
    for ph in phases(s, ex) {
        let p = ph.project;
        for r in &ph.runs {
            let mut running = ph.running_at(r.start);
            running.push(r.step);
            if running.len() > s.j {
                f.push(("j-exceeded".into(), format!("phase {}: {} commands running at once with -j {}: {:?}", ph.index, running.len(), s.j, running.iter().map(|&x| name(p, x)).collect::<Vec<_>>())));
            }
            let pool = p.steps[r.step].pool.clone().unwrap_or_default();
            match p.pool_depth(&pool) {
                Some(d) if d > 0 => {
                    let n = running.iter().filter(|&&x| p.steps[x].pool.clone().unwrap_or_default() == pool).count();
                    if n > d {
                        f.push(("pool-depth-exceeded".into(), format!("phase {}: {} commands of pool {:?} (depth {}) running at once", ph.index, n, pool, d)));
                    }
                }
                Some(_) => {}
                None => f.push(("undeclared-pool-started".into(), format!("phase {}: {} names undeclared pool {:?} but its command was started", ph.index, name(p, r.step), pool))),
            }
        }
        for (i, e) in ph.events.iter().enumerate() {
            if let Event::Wait { believed, running } = e {
                if *believed != running.len() {
                    f.push(("runner-count-drift".into(), format!("phase {} event {}: n2 believes {} commands are running, {} are", ph.index, i, believed, running.len())));
                }
            }
        }
    }
    // A dirty step with an undeclared pool must make the invocation fail with
    // an error naming the pool (unless something else stopped it first).
    let last = ex.sim.projects.last().unwrap();
    if let BuildResult::Error(msg) = &ex.result {
        if msg.contains("unknown pool") {
            let named = last.steps.iter().chain(ex.sim.projects[0].steps.iter()).any(|st| {
                st.pool.as_ref().map(|pl| last.pool_depth(pl).is_none() && msg.contains(&format!("{:?}", pl))).unwrap_or(false)
            });
            if !named {
                f.push(("unknown-pool-error-for-declared-pool".into(), format!("error {:?} but every pool used is declared", msg)));
            }
        }
    }
    if let BuildResult::Success(_) = &ex.result {
        let phs = phases(s, ex);
        if let Some(ph) = phs.last() {
            for &st in &ph.wanted {
                let stp = &ph.project.steps[st];
                if stp.phony {
                    continue;
                }
                if let Some(pl) = &stp.pool {
                    if ph.project.pool_depth(pl).is_none() && ph.run_of(st).is_none() {
                        // accepted only if the step was clean
                        if ex.sim.model.is_dirty(ph.project, st).is_dirty() {
                            f.push(("undeclared-pool-ignored".into(), format!("{} names undeclared pool {:?}, is dirty, and the build reported success", stp.outs[0], pl)));
                        }
                    }
                }
            }
        }
    }
    f
}

fn failed_before(ph: &Phase, t: usize) -> Vec<(usize, Term)> {
    ph.runs
        .iter()
        .filter_map(|r| match r.finish {
            Some((ft, term)) if ft < t && term != Term::Success => Some((r.step, term)),
            _ => None,
        })
        .collect()
}

pub fn monitor_c05(s: &Scenario, ex: &Execution) -> Findings {
    let mut f = Findings::new();
    let phs = phases(s, ex);
    let mut failures_total = 0usize;
    let mut interrupted = false;
    let mut stop_reached_at: Option<(usize, usize)> = None; // (phase, event)
    for ph in &phs {
        let p = ph.project;
        for r in &ph.runs {
            for (q, term) in failed_before(ph, r.start) {
                if p.ord_pred(r.step).contains(&q) {
                    f.push(("started-downstream-of-failure".into(), format!("phase {}: {} started although {} ({:?}) is among its predecessors", ph.index, name(p, r.step), name(p, q), term)));
                }
            }
            if let Some((sp, st)) = stop_reached_at {
                if ph.index > sp || r.start > st {
                    f.push(("started-after-budget-exhausted".into(), format!("phase {}: {} started after the failure budget (-k {:?}) was used up or a command was interrupted", ph.index, name(p, r.step), s.k)));
                }
            }
        }
        for (i, e) in ph.events.iter().enumerate() {
            if let Event::Finished { term, .. } = e {
                match term {
                    Term::Failure => {
                        failures_total += 1;
                        if let Some(k) = s.k {
                            if failures_total >= k && stop_reached_at.is_none() {
                                stop_reached_at = Some((ph.index, i));
                            }
                        }
                    }
                    Term::Interrupted => {
                        interrupted = true;
                        if stop_reached_at.is_none() {
                            stop_reached_at = Some((ph.index, i));
                        }
                    }
                    Term::Success => {}
                }
            }
        }
        // Re-scan starts after the stop point within this phase (the loop
        // above saw starts before the stop point was known).
        if let Some((sp, st)) = stop_reached_at {
            if sp == ph.index {
                for r in &ph.runs {
                    if r.start > st {
                        let already = f.iter().any(|x| x.0 == "started-after-budget-exhausted" && x.1.contains(&name(p, r.step)));
                        if !already {
                            f.push(("started-after-budget-exhausted".into(), format!("phase {}: {} started after the failure budget (-k {:?}) was used up or a command was interrupted", ph.index, name(p, r.step), s.k)));
                        }
                    }
                }
            }
        }
    }
    let any_bad = failures_total > 0 || interrupted;
    match &ex.result {
        BuildResult::Success(_) if any_bad => f.push(("success-despite-failure".into(), format!("{} command(s) failed, interrupted: {}, yet the invocation reported success", failures_total, interrupted))),
        BuildResult::Failed if !any_bad => f.push(("failure-without-failed-command".into(), "the invocation reported failure but no command failed".into())),
        _ => {}
    }
    // Below the budget every wanted step not downstream of a failure must be
    // up to date at the end.
    let below_budget = !interrupted && s.k.map(|k| failures_total < k).unwrap_or(true);
    if below_budget && matches!(ex.result, BuildResult::Failed | BuildResult::Success(_)) {
        if let Some(ph) = phs.last() {
            let p = ph.project;
            let failed: BTreeSet<usize> = ph.runs.iter().filter(|r| matches!(r.finish, Some((_, t)) if t != Term::Success)).map(|r| r.step).collect();
            // If the regeneration phase failed, nothing else is expected.
            let regen_failed = phs.len() == 1 && phs[0].project.producer(&s.manifest_name).is_some() && !failed.is_empty();
            if !regen_failed {
                for &st in &ph.wanted {
                    if p.steps[st].phony || failed.contains(&st) {
                        continue;
                    }
                    if p.ord_pred(st).iter().any(|q| failed.contains(q)) {
                        continue;
                    }
                    if let Some(pl) = &p.steps[st].pool {
                        if p.pool_depth(pl).is_none() {
                            continue;
                        }
                    }
                    let d = ex.sim.model.is_dirty(p, st);
                    if d.is_dirty() && !phony_dirtying_input(p, st) {
                        f.push(("undamaged-step-left-out-of-date".into(), format!("{} is not downstream of any failure and the budget was not used up, but it was left out of date ({:?})", name(p, st), d)));
                    }
                }
            }
        }
    }
    // A failed or interrupted command is never recorded: the follow-up
    // invocation must run it again.
    if let Some((res, ran)) = &ex.followup {
        if let Some(ph) = phs.last() {
            let p = ph.project;
            for r in &ph.runs {
                if matches!(r.finish, Some((_, t)) if t != Term::Success) && ph.wanted.contains(&r.step) && !ran.contains(&r.step) {
                    f.push(("failed-step-recorded-as-up-to-date".into(), format!("{} failed, but the next invocation ({:?}) did not run it again", name(p, r.step), res)));
                }
            }
        }
    }
    f
}

pub fn monitor_c06(s: &Scenario, ex: &Execution) -> Findings {
    let mut f = Findings::new();
    match &ex.result {
        BuildResult::Panicked(p) => f.push((p.key.clone(), format!("n2 panicked: {} at {}", p.message, p.location))),
        BuildResult::Stopped(why) if !why.starts_with("machinery:") => f.push((why.clone(), format!("the invocation could not continue: {}", why))),
        _ => {}
    }
    for p in &ex.thread_panics {
        f.push((p.key(), format!("a task thread panicked: {} at {}", p.message, p.location)));
    }
    let phs = phases(s, ex);
    let first = &ex.sim.projects[0];
    // Cycle expectations are stated on the initial project and the wanted set
    // of the phase that first sees the cycle.
    let wanted0: BTreeSet<usize> = if first.producer(&s.manifest_name).is_some() {
        first.closure(&[s.manifest_name.clone()])
    } else {
        let t: Vec<String> = s.targets.iter().map(|t| vcore::refbuild::canon(t)).collect();
        first.wanted(&t, None)
    };
    let unknown_target = s.targets.iter().any(|t| {
        let c = vcore::refbuild::canon(t);
        first.producer(&c).is_none() && !first.sources().contains(&c)
    });
    let cyclic = first.ordering_cycle_from(&wanted0);
    if cyclic && !unknown_target {
        match &ex.result {
            BuildResult::Error(msg) if msg.starts_with("dependency cycle: ") => {
                let chain: Vec<&str> = msg["dependency cycle: ".len()..].split(" -> ").collect();
                let mut ok = chain.len() >= 2 && chain.first() == chain.last();
                for w in chain.windows(2) {
                    // w[0]'s producer has w[1] as an ordering input
                    match first.producer(w[0]) {
                        Some(st) => {
                            if !first.steps[st].ordering_ins().iter().any(|i| i.as_str() == w[1]) {
                                ok = false;
                            }
                        }
                        None => ok = false,
                    }
                }
                if !ok {
                    f.push(("cycle-message-not-a-cycle".into(), format!("{:?} does not name a cycle of ordering edges", msg)));
                }
                if phs.iter().any(|ph| !ph.runs.is_empty()) {
                    f.push(("cycle-steps-run".into(), format!("commands were started although a dependency cycle was reported: {:?}", msg)));
                }
            }
            other => f.push(("cycle-not-reported".into(), format!("the requested steps contain a dependency cycle but the result is {:?}", other))),
        }
        return f;
    }
    if let BuildResult::Error(msg) = &ex.result {
        if msg.starts_with("dependency cycle") {
            f.push(("false-cycle".into(), format!("no cycle of ordering edges among the requested steps, yet: {:?}", msg)));
        }
    }
    // With failures and budget left it stops only when nothing further can
    // run: every wanted step not downstream of a failure is decided.
    f.extend(
        monitor_c05(s, ex)
            .into_iter()
            .filter(|(k, _)| k == "undamaged-step-left-out-of-date")
            .map(|(_, d)| ("stopped-although-work-remained".to_string(), d)),
    );
    // With no failing command every wanted step ends up to date.
    let none_fail = s.outcomes.is_empty() && s.raw_depfile.is_empty();
    if none_fail && !unknown_target {
        let undeclared = first.steps.iter().chain(ex.sim.projects.last().unwrap().steps.iter()).any(|st| st.pool.as_ref().map(|pl| ex.sim.projects.last().unwrap().pool_depth(pl).is_none() && first.pool_depth(pl).is_none()).unwrap_or(false));
        match &ex.result {
            BuildResult::Success(_) => {
                if let Some(ph) = phs.last() {
                    for &st in &ph.wanted {
                        if ph.project.steps[st].phony {
                            continue;
                        }
                        let d = ex.sim.model.is_dirty(ph.project, st);
                        if d.is_dirty() && !s.adopt && !phony_dirtying_input(ph.project, st) {
                            f.push(("wanted-step-left-out-of-date".into(), format!("the invocation succeeded but {} is out of date ({:?})", name(ph.project, st), d)));
                        }
                    }
                }
            }
            BuildResult::Error(msg) if msg.contains("unknown pool") && undeclared => {}
            BuildResult::Error(msg) if msg.contains("unknown path requested") => {
                // target only known to the old / new manifest in R scenarios
            }
            BuildResult::Panicked(_) | BuildResult::Stopped(_) | BuildResult::Crashed => {}
            other => f.push(("no-failure-yet-not-successful".into(), format!("no command fails in this scenario but the result is {:?}", other))),
        }
    }
    f
}

pub fn monitor_c18(s: &Scenario, ex: &Execution) -> Findings {
    let mut f = Findings::new();
    let phs = phases(s, ex);
    for ph in &phs {
        for r in &ph.runs {
            if !ph.wanted.contains(&r.step) {
                f.push(("ran-step-outside-closure".into(), format!("phase {}: {} is not needed by the requested targets {:?} (defaults {:?}) but its command was started", ph.index, name(ph.project, r.step), s.targets, ph.project.defaults)));
            }
        }
        for c in &ph.foreign_starts {
            f.push(("ran-step-of-other-manifest".into(), format!("phase {}: command {:?} does not belong to the manifest in effect", ph.index, c)));
        }
    }
    // Unknown names are judged against the manifest in effect for phase 2.
    let has_gen = ex.sim.projects[0].producer(&s.manifest_name).is_some();
    let final_project: &Project = match phs.last() {
        Some(ph) if !(has_gen && phs.len() == 1) => ph.project,
        _ => {
            // Only the regeneration phase ran (it failed) or nothing ran.
            if has_gen && phs.len() == 1 && phs[0].runs.iter().any(|r| matches!(r.finish, Some((_, Term::Success)))) {
                ex.sim.projects.last().unwrap()
            } else {
                &ex.sim.projects[0]
            }
        }
    };
    let regen_failed = has_gen && phs.first().map(|p| p.runs.iter().any(|r| matches!(r.finish, Some((_, t)) if t != Term::Success))).unwrap_or(false);
    // A generator input was edited, so the manifest is out of date and has to be
    // regenerated first: names are then judged against the text the generator
    // writes, also when n2 gave up before running anything.
    let must_regenerate = has_gen && s.prebuilt && !s.adopt && s.edits.iter().any(|e| matches!(e, crate::scen::Edit::Touch(f) if f == "gen.in"));
    let nothing_ran = phs.iter().all(|ph| ph.runs.is_empty());
    if must_regenerate && nothing_ran {
        if let (BuildResult::Error(msg), Some(g)) = (&ex.result, s.generators.values().next()) {
            let in_next = |t: &str| -> bool {
                let c = vcore::refbuild::canon(t);
                g.next.producer(&c).is_some() || g.next.sources().contains(&c) || c == s.manifest_name
            };
            if msg.contains("unknown path requested") && s.targets.iter().all(|t| in_next(t)) {
                f.push(("target-of-regenerated-manifest-rejected".into(), format!("the manifest is out of date and the text its generator writes defines every target of {:?}, yet n2 rejected them without regenerating: {}", s.targets, msg)));
                return f;
            }
        }
    }
    if !regen_failed {
        let mentioned = |t: &str| -> bool {
            let c = vcore::refbuild::canon(t);
            final_project.producer(&c).is_some() || final_project.sources().contains(&c) || c == s.manifest_name
        };
        let unknown: Vec<&String> = s.targets.iter().filter(|t| !mentioned(t)).collect();
        if !unknown.is_empty() && !s.adopt {
            match &ex.result {
                BuildResult::Error(msg) if msg.contains("unknown path requested") => {
                    let started_later = phs.iter().skip(if has_gen { 1 } else { 0 }).any(|ph| !ph.runs.is_empty());
                    if started_later {
                        f.push(("built-despite-unknown-target".into(), format!("target(s) {:?} occur nowhere in the manifest; n2 reported it but had already started commands", unknown)));
                    }
                }
                BuildResult::Error(msg) if msg.starts_with("dependency cycle") => {}
                other => f.push(("unknown-target-accepted".into(), format!("target(s) {:?} occur nowhere in the manifest in effect, but the result is {:?}", unknown, other))),
            }
        } else if let BuildResult::Error(msg) = &ex.result {
            if msg.contains("unknown path requested") {
                f.push(("known-target-rejected".into(), format!("every target of {:?} occurs in the manifest, yet: {}", s.targets, msg)));
            }
        }
    }
    // With no failures every dirty step of the closure runs: same clause as
    // C06's, evaluated here for the requested closure only.
    if s.outcomes.is_empty() {
        if let (BuildResult::Success(_), Some(ph)) = (&ex.result, phs.last()) {
            for &st in &ph.wanted {
                if ph.project.steps[st].phony {
                    continue;
                }
                if ex.sim.model.is_dirty(ph.project, st).is_dirty() && !s.adopt && !phony_dirtying_input(ph.project, st) {
                    f.push(("closure-step-left-out-of-date".into(), format!("{} is needed by the requested targets but was left out of date", name(ph.project, st))));
                }
            }
        }
    }
    f
}

pub fn monitor_c19(s: &Scenario, ex: &Execution) -> Findings {
    let mut f = Findings::new();
    let mut frames = 0usize;
    let phs = phases(s, ex);
    let mut successes_total = 0usize;
    for ph in &phs {
        let p = ph.project;
        let expected_total = ph.wanted.iter().filter(|&&st| !p.steps[st].phony).count();
        let mut last_done = 0usize;
        let mut last_failed = 0usize;
        let mut fails = 0usize;
        let mut succ = 0usize;
        let mut started: Vec<usize> = Vec::new();
        let mut finished: Vec<usize> = Vec::new();
        let mut last_counts: Option<[usize; 6]> = None;
        let cyclic_or_error = matches!(ex.result, BuildResult::Error(_));
        for (i, e) in ph.events.iter().enumerate() {
            match e {
                Event::Finished { term, .. } => match term {
                    Term::Failure => fails += 1,
                    Term::Success => succ += 1,
                    Term::Interrupted => {}
                },
                Event::TaskStarted { build } => started.push(*build),
                Event::TaskFinished { build, .. } => {
                    if !started.contains(build) || finished.contains(build) {
                        f.push(("task-finished-without-start".into(), format!("phase {}: task_finished for build {} without a matching task_started", ph.index, build)));
                    }
                    finished.push(*build);
                }
                Event::Counts(c, n2_total) => {
                    let total: usize = c.iter().sum();
                    if *n2_total != total {
                        f.push(("total-differs-from-sum-of-states".into(), format!("phase {} event {}: the display's total is {}, the per-state counts {:?} sum to {}", ph.index, i, n2_total, c, total)));
                    }
                    if total != expected_total && !cyclic_or_error {
                        f.push(("total-differs-from-wanted-steps".into(), format!("phase {} event {}: counts {:?} sum to {}, the wanted set has {} non-phony steps", ph.index, i, c, total, expected_total)));
                    }
                    let running_now = ph.running_at(i).len();
                    if c[3] != running_now {
                        f.push(("running-count-wrong".into(), format!("phase {} event {}: reported running {}, actually running {}", ph.index, i, c[3], running_now)));
                    }
                    // Every failure n2 has processed and survived is shown.
                    if c[5] != fails {
                        f.push(("failed-count-wrong".into(), format!("phase {} event {}: reported failed {}, {} commands have failed", ph.index, i, c[5], fails)));
                    }
                    if c[4] < last_done {
                        f.push(("done-count-decreased".into(), format!("phase {} event {}: done went from {} to {}", ph.index, i, last_done, c[4])));
                    }
                    if c[5] < last_failed {
                        f.push(("failed-count-decreased".into(), format!("phase {} event {}: failed went from {} to {}", ph.index, i, last_failed, c[5])));
                    }
                    if c[4] < succ {
                        f.push(("done-count-below-successes".into(), format!("phase {} event {}: done {} but {} commands have succeeded", ph.index, i, c[4], succ)));
                    }
                    last_done = c[4];
                    last_failed = c[5];
                    last_counts = Some(*c);
                }
                Event::Frame(bytes) => {
                    // What the tty display shows, parsed from the painted frame:
                    // `[bar] D/T done, [F failed, ]R/Q running`.
                    frames += 1;
                    let text = String::from_utf8_lossy(bytes).to_string();
                    let Some(line) = text.lines().find(|l| l.contains(" done, ") && l.ends_with(" running")) else {
                        f.push(("frame-without-status-line".into(), format!("phase {} event {}: painted frame {:?} has no status line", ph.index, i, text)));
                        continue;
                    };
                    let nums: Vec<usize> = line
                        .rsplit(']')
                        .next()
                        .unwrap_or("")
                        .split(|c: char| !c.is_ascii_digit())
                        .filter(|t| !t.is_empty())
                        .filter_map(|t| t.parse().ok())
                        .collect();
                    // D T [F] R Q
                    let (d, t, fl, r, q) = match nums.len() {
                        4 => (nums[0], nums[1], 0, nums[2], nums[3]),
                        5 => (nums[0], nums[1], nums[2], nums[3], nums[4]),
                        _ => {
                            f.push(("frame-without-status-line".into(), format!("phase {} event {}: cannot read the status line {:?}", ph.index, i, line)));
                            continue;
                        }
                    };
                    let running_now = ph.running_at(i).len();
                    if r != running_now {
                        f.push(("displayed-running-count-wrong".into(), format!("phase {} event {}: the display says {} running ({:?}), {} commands are executing", ph.index, i, r, line, running_now)));
                    }
                    if let Some(c) = last_counts {
                        if d != c[4] + c[5] || t != c.iter().sum::<usize>() || fl != c[5] || q != c[1] + c[2] + c[3] {
                            f.push(("displayed-counts-differ-from-state-counts".into(), format!("phase {} event {}: the display says {:?}, the state counts are {:?}", ph.index, i, line, c)));
                        }
                    }
                    // (the line may start with the erase sequence ESC [ J of the previous frame)
                    let bar_part = line.rsplit("\x1b[J").next().unwrap_or(line);
                    let bar_len = bar_part.find(']').map(|e| e.saturating_sub(bar_part.find('[').map(|s| s + 1).unwrap_or(0))).unwrap_or(0);
                    if bar_len != 40 {
                        f.push(("displayed-bar-width-wrong".into(), format!("phase {} event {}: the bar in {:?} is {} wide", ph.index, i, line, bar_len)));
                    }
                }
                _ => {}
            }
        }
        successes_total += succ;
    }
    if exec::SHADOW_DISPLAY.load(std::sync::atomic::Ordering::Relaxed) && frames == 0 && ex.trace.iter().any(|e| matches!(e, Event::Counts(..))) {
        f.push(("machinery:no-frames".into(), "the shadow display painted no frame although counts were updated".into()));
    }
    if let BuildResult::Success(n) = &ex.result {
        if *n != successes_total {
            f.push(("ran-count-wrong".into(), format!("the invocation reports {} tasks run; {} commands completed successfully", n, successes_total)));
        }
    }
    f
}

/// C17 (scheduler half): after a regeneration, phase 2 belongs entirely to
/// the new manifest; if regeneration fails nothing else runs.
pub fn monitor_c17(s: &Scenario, ex: &Execution) -> Findings {
    let mut f = Findings::new();
    let phs = phases(s, ex);
    let has_gen = ex.sim.projects[0].producer(&s.manifest_name).is_some();
    if !has_gen {
        return f;
    }
    let Some(p1) = phs.first() else {
        // n2 gave up before any phase began: the target clauses still apply.
        f.extend(monitor_c18(s, ex).into_iter().map(|(k, d)| (format!("regen:{}", k), d)));
        return f;
    };
    let gen_step = p1.project.producer(&s.manifest_name).unwrap();
    let gen_failed = p1.runs.iter().any(|r| matches!(r.finish, Some((_, t)) if t != Term::Success));
    if gen_failed {
        if phs.len() > 1 && phs[1..].iter().any(|ph| !ph.runs.is_empty()) {
            f.push(("ran-after-failed-regeneration".into(), "commands were started after the regeneration phase failed".into()));
        }
        if !matches!(ex.result, BuildResult::Failed) {
            f.push(("failed-regeneration-not-reported".into(), format!("regeneration failed but the result is {:?}", ex.result)));
        }
        return f;
    }
    // Was the generator dirty at the beginning?  (Model on the prepared state.)
    let gen_ran = p1.run_of(gen_step).is_some();
    for r in &p1.runs {
        if !p1.wanted.contains(&r.step) {
            f.push(("regeneration-phase-ran-unrelated-step".into(), format!("{} is not needed for the manifest but ran in the regeneration phase", name(p1.project, r.step))));
        }
    }
    if phs.len() > 1 {
        let p2 = &phs[1];
        for c in &p2.foreign_starts {
            f.push(("old-manifest-step-after-reload".into(), format!("command {:?} is not part of the regenerated manifest but was started after the reload", c)));
        }
        if gen_ran && p2.run_of(p2.project.producer(&s.manifest_name).unwrap_or(usize::MAX)).is_some() {
            f.push(("generator-ran-twice".into(), "the generator ran again after the reload".into()));
        }
    }
    // Everything after a reload must look like a fresh invocation on the new
    // text: final state of the wanted steps clean, closure respected (C18's
    // monitor judges against the new project), no stale steps run.
    f.extend(monitor_c18(s, ex).into_iter().map(|(k, d)| (format!("regen:{}", k), d)));
    if s.outcomes.is_empty() {
        f.extend(monitor_c06(s, ex).into_iter().filter(|(k, _)| k == "wanted-step-left-out-of-date").map(|(k, d)| (format!("regen:{}", k), d)));
    }
    f
}

/// C14 (scheduler half): a regenerated manifest (or included fragment) in
/// which a second statement produces an existing output is rejected on reload,
/// naming the output, and nothing of it runs.
pub fn monitor_c14(s: &Scenario, ex: &Execution) -> Findings {
    let mut f = Findings::new();
    if !s.note.starts_with("RD ") {
        return f;
    }
    let phs = phases(s, ex);
    match &ex.result {
        BuildResult::Error(msg) if msg.contains("is already an output") => {
            let later = phs.iter().skip(1).any(|ph| !ph.runs.is_empty());
            if later {
                f.push(("ran-steps-of-a-rejected-manifest".into(), format!("the regenerated manifest was rejected ({}) but commands were started after the regeneration phase", msg)));
            }
        }
        other => f.push((
            "duplicate-producer-after-regeneration-accepted".into(),
            format!("the generator wrote a text in which two statements produce one file, but the invocation ended with {:?} and started {:?} after the regeneration phase", other, phs.iter().skip(1).flat_map(|ph| ph.runs.iter().map(|r| name(ph.project, r.step))).collect::<Vec<_>>()),
        )),
    }
    f
}

pub fn monitors(prop: &str, s: &Scenario, ex: &Execution) -> Findings {
    // An invocation that panics establishes nothing; whatever the property,
    // the panic itself is reported (C06 reports it through its own monitor).
    if prop != "C06" {
        if let BuildResult::Panicked(p) = &ex.result {
            return vec![(p.key.clone(), format!("n2 panicked: {} at {}", p.message, p.location))];
        }
    }
    match prop {
        "C01" => monitor_c01(s, ex),
        "C04" => monitor_c04(s, ex),
        "C05" => monitor_c05(s, ex),
        "C06" => monitor_c06(s, ex),
        "C17" => monitor_c17(s, ex),
        "C14" => monitor_c14(s, ex),
        "C18" => monitor_c18(s, ex),
        "C19" => monitor_c19(s, ex),
        _ => Vec::new(),
    }
}

// ---------------------------------------------------------------------------
// Explorer.

fn trace_hash(ex: &Execution) -> u64 {
    let mut h = Fnv::default();
    for e in &ex.trace {
        match e {
            Event::Start { cmdline, .. } => {
                h.str("S");
                h.str(cmdline);
            }
            Event::Finished { build, term } => {
                h.str("F");
                h.u64(*build as u64);
                h.u64(*term as u64);
            }
            Event::RunBegin { .. } => h.str("R"),
            _ => {}
        }
    }
    h.str(&format!("{:?}", ex.result));
    h.0
}

fn outcome_class(ex: &Execution) -> String {
    let starts = ex.trace.iter().filter(|e| matches!(e, Event::Start { .. })).count();
    let r = match &ex.result {
        BuildResult::Success(_) => "success".to_string(),
        BuildResult::Failed => "failed".to_string(),
        BuildResult::Error(m) => format!("error:{}", crate::eng_total::class_of(m)),
        BuildResult::Crashed => "crashed".to_string(),
        BuildResult::Stopped(w) => format!("stopped:{}", w),
        BuildResult::Panicked(p) => p.key.clone(),
    };
    format!("{} starts={}", r, starts.min(6))
}

pub fn explore(ctx: &Ctx, fam: &str, idx: usize, s: &Scenario, res: &mut ShardResult, only_prefix: Option<Vec<usize>>) {
    let prop = ctx.prop.clone();
    let job = ctx.job.clone();
    let prep = match prepare(s) {
        Ok(p) => p,
        Err(e) => {
            // The prebuild is an ordinary all-success build; its failure is a
            // finding for C06 and a skipped scenario otherwise.
            res.count("prebuild_failed", 1);
            if prop == "C06" {
                res.violation("prebuild-failed", || format!("{}: {}", s.note, e), || json!({"job": job, "family": fam, "index": idx, "choices": [], "scenario": s.describe()}));
            }
            return;
        }
    };
    let mut stack: Vec<Vec<usize>> = vec![only_prefix.clone().unwrap_or_default()];
    let mut seen_traces: BTreeSet<u64> = BTreeSet::new();
    let mut executions = 0u64;
    while let Some(prefix) = stack.pop() {
        let mut mark = format!("{}#{} ", fam, idx).into_bytes();
        mark.extend(prefix.iter().map(|c| b'0' + (*c as u8).min(9)));
        ctx.marker.set(idx as u64, &mark);
        let ex = execute(s, &prep, &prefix, true);
        executions += 1;
        res.evaluations += 1;
        res.states += ex.points.len() as u64 + 1;
        res.transitions += ex.points.len() as u64;
        res.max_depth = res.max_depth.max(ex.points.len() as u64);
        if let Some(d) = &ex.diverged {
            res.violation("machinery:replay-divergence", || format!("{}: {}", s.note, d), || json!({"job": job, "family": fam, "index": idx, "choices": prefix}));
            res.count("machinery_divergence", 1);
            continue;
        }
        if let BuildResult::Stopped(w) = &ex.result {
            if w.starts_with("machinery:") {
                res.count("machinery_stop", 1);
                res.violation(&w.clone(), || format!("{}: harness could not drive the execution: {}", s.note, w), || json!({"job": job, "family": fam, "index": idx, "choices": prefix}));
                continue;
            }
        }
        // Vacuity guards.
        let max_running = ex.trace.iter().filter_map(|e| if let Event::Wait { running, .. } = e { Some(running.len()) } else { None }).max().unwrap_or(0);
        if max_running >= 2 {
            res.count("executions_with_concurrency", 1);
        }
        if ex.points.iter().any(|p| p.arity >= 2) {
            res.count("executions_with_choice", 1);
        }
        if ex.sim.ran.iter().any(|r| r.term != Term::Success) {
            res.count("executions_with_failure", 1);
        }
        if ex.trace.iter().filter(|e| matches!(e, Event::RunBegin { .. })).count() >= 2 && ex.sim.projects.len() >= 2 {
            res.count("executions_with_reload", 1);
        }
        let h = trace_hash(&ex);
        if seen_traces.insert(h) && ex.trace.iter().filter(|e| matches!(e, Event::Start { .. })).count() >= 2 {
            res.nontrivial += 1;
        }
        res.outcome(&outcome_class(&ex));
        let chosen: Vec<usize> = ex.points.iter().map(|p| p.chosen).collect();
        for (key, detail) in monitors(&prop, s, &ex) {
            res.violation(
                &key,
                || format!("{}\nscenario: {}\nchoices: {:?}\ntrace: {}", detail, s.note, chosen, short_trace(&ex)),
                || json!({"job": job, "family": fam, "index": idx, "choices": chosen, "scenario": s.describe()}),
            );
        }
        if (res.samples.is_empty() || idx % 997 == 0) && executions == 1 {
            res.sample(|| json!({"family": fam, "index": idx, "scenario": s.describe(), "choices": chosen, "trace": short_trace(&ex)}));
        }
        if only_prefix.is_some() || s.single_order {
            break;
        }
        // Branch on every later choice point.
        for i in prefix.len()..ex.points.len() {
            for alt in 1..ex.points[i].arity {
                let mut p: Vec<usize> = ex.points[..i].iter().map(|x| x.chosen).collect();
                p.push(alt);
                stack.push(p);
            }
        }
        if executions > 20_000 {
            res.caps.push(format!("{}#{}: more than 20000 executions, exploration of this scenario cut", fam, idx));
            break;
        }
    }
}

pub fn short_trace(ex: &Execution) -> String {
    let mut out = Vec::new();
    for e in &ex.trace {
        match e {
            Event::RunBegin { .. } => out.push("|run".to_string()),
            Event::Start { cmdline, .. } => out.push(format!("start({})", cmdline)),
            Event::Finished { build, term } => {
                let c = ex.trace.iter().find_map(|x| match x {
                    Event::Start { build: b, cmdline } if b == build => Some(cmdline.clone()),
                    _ => None,
                });
                out.push(format!("end({},{:?})", c.unwrap_or_default(), term))
            }
            Event::Wait { running, .. } => out.push(format!("wait{}", running.len())),
            _ => {}
        }
    }
    format!("{} => {:?}", out.join(" "), ex.result)
}

pub fn run(ctx: &mut Ctx) -> ShardResult {
    let mut res = ShardResult::default();
    exec::install_hooks();
    if ctx.prop == "C19" {
        // C19 also watches what the tty display would show: a real fancy-console
        // state is fed behind the forwarded progress and painted at every update.
        exec::SHADOW_DISPLAY.store(true, std::sync::atomic::Ordering::Relaxed);
        exec::discard_stdout();
    }
    if let Some(case) = ctx.replay.clone() {
        let fam = case["family"].as_str().expect("family").to_string();
        let idx = case["index"].as_u64().expect("index") as usize;
        let choices: Vec<usize> = case["choices"].as_array().map(|a| a.iter().map(|x| x.as_u64().unwrap_or(0) as usize).collect()).unwrap_or_default();
        let list = family(&fam);
        explore(ctx, &fam, idx, &list[idx], &mut res, Some(choices));
        return res;
    }
    let fam = ctx.job.split(':').nth(1).expect("family").to_string();
    let list = family(&fam);
    for (idx, s) in list.iter().enumerate() {
        if idx as u64 % ctx.nshards != ctx.shard {
            continue;
        }
        if ctx.skip(idx as u64) {
            continue;
        }
        explore(ctx, &fam, idx, s, &mut res, None);
    }
    res.count("scenarios", list.iter().enumerate().filter(|(i, _)| *i as u64 % ctx.nshards == ctx.shard).count() as u64);
    res
}

pub fn case_from_marker(job: &str, bytes: &[u8]) -> Value {
    // "<family>#<index> <choice digits>"
    let text = String::from_utf8_lossy(bytes).to_string();
    let (head, digits) = text.split_once(' ').unwrap_or((&text, ""));
    let (fam, idx) = head.split_once('#').unwrap_or((head, "0"));
    let choices: Vec<usize> = digits.bytes().map(|b| (b - b'0') as usize).collect();
    json!({"job": job, "family": fam, "index": idx.parse::<usize>().unwrap_or(0), "choices": choices})
}

#[allow(dead_code)]
pub fn unused(_: &BTreeMap<String, String>) {}
