//! C15: depfiles.  Structured depfiles under all formattings are compared with
//! their abstract content; all short strings over a 5-symbol alphabet (plus
//! NUL/CR/UTF-8 variants) are checked for totality and sanity.

use crate::worker::{catch, Ctx, Tier};
use serde_json::{json, Value};
use std::path::Path;
use vcore::enumerate::{count_upto, for_range, shard_range};
use vcore::refdepfile::{abstract_depfiles, for_formats, AbstractDepfile};
use vcore::report::ShardResult;

const STR_ALPHA: &[&str] = &["a", " ", ":", "\\", "\n"];
const ODD_ALPHA: &[&str] = &["a", "\0", "\r", "é", ":", " ", "\n", "\\"];

pub fn jobs(tier: Tier) -> Vec<(String, u64)> {
    vec![
        ("depfile:formats".into(), 16),
        ("depfile:repeat".into(), 4),
        (format!("depfile:strings:{}", tier.pick(9, 10)), 16),
        (format!("depfile:odd:{}", tier.pick(5, 6)), 8),
        (format!("depfile:files:{}", tier.pick(6, 7)), 8),
    ]
}

/// Jobs that belong to C12 (totality only).
pub fn jobs_total(tier: Tier) -> Vec<(String, u64)> {
    vec![
        (format!("depfile:strings:{}", tier.pick(9, 10)), 16),
        (format!("depfile:odd:{}", tier.pick(5, 6)), 8),
    ]
}

fn families(tier: Tier) -> Vec<(Vec<AbstractDepfile>, Option<usize>)> {
    vec![
        // One entry, up to two prerequisites: every formatting.
        (abstract_depfiles(1, 2, false), None),
        // One entry with three prerequisites.
        (
            abstract_depfiles(1, 3, false)
                .into_iter()
                .filter(|d| d.entries[0].1.len() == 3)
                .collect(),
            Some(tier.pick(2, 3)),
        ),
        // Two entries, up to two prerequisites each.
        (
            abstract_depfiles(2, 2, false)
                .into_iter()
                .filter(|d| d.entries.len() == 2)
                .collect(),
            Some(tier.pick(2, 3)),
        ),
        // Three entries, up to one prerequisite each.
        (
            abstract_depfiles(3, 1, false)
                .into_iter()
                .filter(|d| d.entries.len() == 3)
                .collect(),
            Some(tier.pick(2, 3)),
        ),
    ]
}

fn check_structured(d: &AbstractDepfile, text: &str, job: &str, res: &mut ShardResult) {
    res.evaluations += 1;
    let path = Path::new("case.d");
    std::fs::write(path, text).expect("write depfile");
    let expected = d.expected();
    let replay = || json!({"job": job, "text": text, "expected": expected});
    match catch(|| n2::verif::verif_read_depfile(path)) {
        Err(p) => res.violation(
            &p.key(),
            || format!("read_depfile panicked on {:?}: {} at {}", text, p.message, p.location),
            replay,
        ),
        Ok(Err(e)) => res.violation(
            "well-formed-depfile-rejected",
            || format!("depfile {:?} (entries {:?}) was rejected: {}", text, d.entries, e),
            replay,
        ),
        Ok(Ok(deps)) => {
            // For a target that appears in several entries only the set of
            // prerequisites is compared (their relative order across entries
            // of different targets is a matter of convention).
            let same = if d.has_repeated_target() {
                let (mut a, mut b) = (deps.clone(), expected.clone());
                a.sort();
                b.sort();
                a == b
            } else {
                deps == expected
            };
            if !same {
                let key = if d.has_repeated_target() {
                    "repeated-target-loses-prerequisites"
                } else {
                    "deps-differ-from-listed-prerequisites"
                };
                res.violation(
                    key,
                    || format!("depfile {:?}: n2 discovered {:?}, listed prerequisites are {:?}", text, deps, expected),
                    replay,
                );
            } else {
                if !expected.is_empty() {
                    res.nontrivial += 1;
                }
                res.outcome(&format!("ok-{}-entries-{}-deps", d.entries.len(), expected.len()));
            }
        }
    }
}

fn check_string(text: &[u8], job: &str, res: &mut ShardResult) {
    res.evaluations += 1;
    let replay = || json!({"job": job, "bytes": text});
    match catch(|| n2::verif::parse_depfile(text)) {
        Err(p) => res.violation(
            &p.key(),
            || format!("depfile parser panicked on {:?}: {} at {}", String::from_utf8_lossy(text), p.message, p.location),
            replay,
        ),
        Ok(Ok(entries)) => {
            // Sanity: every reported word is a maximal blank-free piece of the
            // input, in input order.
            let mut pos = 0usize;
            let upto = text.iter().position(|&c| c == 0).unwrap_or(text.len());
            let hay = &text[..upto];
            let mut ok = true;
            for (_, deps) in &entries {
                // (Targets are not used by n2; only prerequisites are checked.)
                for w in deps.iter() {
                    // Within one entry the words keep their input order; a
                    // target repeated in a later entry is merged into the
                    // first one, so across entries only presence is checked.
                    match find(hay, w.as_bytes(), pos) {
                        Some(at) => pos = at + w.len(),
                        None => {
                            if find(hay, w.as_bytes(), 0).is_none() {
                                ok = false;
                            }
                        }
                    }
                    if w.is_empty() || w.bytes().any(|c| c == b' ' || c == b'\n') {
                        ok = false;
                    }
                }
            }
            // Inside the plain core of the grammar the result is fully determined.
            let plain = vcore::refdepfile::recognise_plain(hay);
            let got: Vec<String> = entries.iter().flat_map(|(_, d)| d.iter().cloned()).collect();
            let plain_mismatch = match &plain {
                Some(exp) => {
                    res.count("strings_in_plain_core", 1);
                    let mut targets_seen = std::collections::BTreeSet::new();
                    // (a repeated target is merged into its first entry, which
                    // reorders prerequisites across entries; compare as multisets then)
                    let repeated = entries.len() != exp.len() || !entries.iter().all(|(t, _)| targets_seen.insert(t.clone()));
                    let flat: Vec<String> = exp.iter().flatten().cloned().collect();
                    if repeated {
                        let mut a = flat.clone();
                        let mut b = got.clone();
                        a.sort();
                        b.sort();
                        a != b
                    } else {
                        flat != got
                    }
                }
                None => false,
            };
            if plain_mismatch {
                res.violation(
                    "plain-depfile-misread",
                    || format!("depfile {:?} parsed to {:?}, expected prerequisites {:?}", String::from_utf8_lossy(text), entries, plain),
                    replay,
                );
            } else if !ok {
                res.violation(
                    "parsed-words-not-from-input",
                    || format!("depfile {:?} parsed to {:?}", String::from_utf8_lossy(text), entries),
                    replay,
                );
            } else {
                if entries.iter().any(|(_, d)| !d.is_empty()) {
                    res.nontrivial += 1;
                }
                res.outcome(if entries.is_empty() { "ok-empty" } else { "ok-entries" });
            }
        }
        Ok(Err(msg)) if vcore::refdepfile::recognise_plain(&text[..text.iter().position(|&c| c == 0).unwrap_or(text.len())]).is_some() => {
            res.violation(
                "plain-depfile-rejected",
                || format!("well-formed depfile {:?} rejected: {}", String::from_utf8_lossy(text), msg),
                replay,
            );
        }
        Ok(Err(msg)) => {
            if !msg.starts_with("parse error: ") || !msg.contains("depfile:") || !msg.ends_with("^\n") {
                res.violation(
                    "malformed-diagnostic",
                    || format!("depfile {:?}: diagnostic {:?} lacks parse error / file:line / caret", String::from_utf8_lossy(text), msg),
                    replay,
                );
            } else {
                res.nontrivial += 1;
                res.outcome(&format!("err:{}", crate::eng_total::class_of(&msg)));
            }
        }
    }
}

fn find(hay: &[u8], needle: &[u8], from: usize) -> Option<usize> {
    if needle.is_empty() || from > hay.len() {
        return None;
    }
    hay[from..]
        .windows(needle.len())
        .position(|w| w == needle)
        .map(|p| p + from)
}

/// Through the real file-reading path: Ok, or an error that names the file.
fn check_file(text: &[u8], job: &str, res: &mut ShardResult) {
    res.evaluations += 1;
    let path = Path::new("sub/case.d");
    std::fs::create_dir_all("sub").ok();
    std::fs::write(path, text).expect("write depfile");
    let replay = || json!({"job": job, "bytes": text});
    match catch(|| n2::verif::verif_read_depfile(path)) {
        Err(p) => res.violation(
            &p.key(),
            || format!("read_depfile panicked on {:?}: {}", String::from_utf8_lossy(text), p.message),
            replay,
        ),
        Ok(Ok(deps)) => {
            if !deps.is_empty() {
                res.nontrivial += 1;
            }
            res.outcome("file-ok");
        }
        Ok(Err(e)) => {
            let msg = e.to_string();
            if !msg.contains("sub/case.d") || !msg.contains("parse error") {
                res.violation(
                    "error-does-not-name-depfile",
                    || format!("malformed depfile {:?}: error {:?} does not name the depfile", String::from_utf8_lossy(text), msg),
                    replay,
                );
            } else {
                res.nontrivial += 1;
                res.outcome("file-err-names-depfile");
            }
        }
    }
}

pub fn run(ctx: &mut Ctx) -> ShardResult {
    let mut res = ShardResult::default();
    let job = ctx.job.clone();
    if let Some(case) = &ctx.replay {
        if let Some(text) = case.get("text").and_then(|t| t.as_str()) {
            let expected: Vec<String> = case["expected"]
                .as_array()
                .map(|a| a.iter().map(|x| x.as_str().unwrap_or("").to_string()).collect())
                .unwrap_or_default();
            // Rebuild an abstract depfile that has the same expectation.
            let d = AbstractDepfile {
                entries: vec![("replayed".into(), expected)],
            };
            check_structured(&d, text, &job, &mut res);
        } else {
            let bytes: Vec<u8> = case["bytes"]
                .as_array()
                .map(|a| a.iter().map(|x| x.as_u64().unwrap_or(0) as u8).collect())
                .unwrap_or_default();
            if job.starts_with("depfile:files") {
                check_file(&bytes, &job, &mut res);
            } else {
                check_string(&bytes, &job, &mut res);
            }
        }
        return res;
    }
    let parts: Vec<&str> = job.split(':').collect();
    match parts[1] {
        "formats" | "repeat" => {
            let fams = if parts[1] == "formats" {
                families(ctx.tier)
            } else {
                vec![
                    (
                        abstract_depfiles(2, 2, true)
                            .into_iter()
                            .filter(|d| d.has_repeated_target())
                            .collect(),
                        Some(1),
                    ),
                    (
                        abstract_depfiles(3, 1, true)
                            .into_iter()
                            .filter(|d| d.entries.len() == 3 && d.has_repeated_target())
                            .collect(),
                        Some(1),
                    ),
                ]
            };
            let mut idx = 0u64;
            for (list, dev) in fams {
                for d in &list {
                    idx += 1;
                    if idx % ctx.nshards != ctx.shard {
                        continue;
                    }
                    let mut first = true;
                    for_formats(d, dev, &mut |_, text| {
                        ctx.marker.set(idx, text.as_bytes());
                        check_structured(d, text, &job, &mut res);
                        if first && idx % 97 == 0 {
                            res.sample(|| json!({"entries": format!("{:?}", d.entries), "text": text}));
                        }
                        first = false;
                    });
                }
            }
            // A missing depfile counts as empty.
            if ctx.shard == 0 {
                res.evaluations += 1;
                match catch(|| n2::verif::verif_read_depfile(Path::new("does/not/exist.d"))) {
                    Ok(Ok(d)) if d.is_empty() => res.outcome("missing-file-empty"),
                    other => res.violation(
                        "missing-depfile-not-empty",
                        || format!("missing depfile gave {:?}", other.map(|r| r.map_err(|e| e.to_string()))),
                        || json!({"job": job, "bytes": []}),
                    ),
                }
            }
        }
        "strings" | "odd" | "files" => {
            let tokens = if parts[1] == "odd" { ODD_ALPHA } else { STR_ALPHA };
            let max: u32 = parts[2].parse().expect("bound");
            let k = tokens.len() as u64;
            let total = count_upto(k, 0, max);
            let (lo, hi) = shard_range(total, ctx.shard, ctx.nshards);
            let mut buf = Vec::new();
            for_range(k, 0, max, lo, hi, |idx, seq| {
                if ctx.skip(idx) {
                    return;
                }
                buf.clear();
                for &s in seq {
                    buf.extend_from_slice(tokens[s as usize].as_bytes());
                }
                ctx.marker.set(idx, &buf);
                if parts[1] == "files" {
                    check_file(&buf, &job, &mut res);
                } else {
                    check_string(&buf, &job, &mut res);
                }
                if idx % 300_007 == 0 {
                    let b = buf.clone();
                    res.sample(|| json!({"depfile": String::from_utf8_lossy(&b)}));
                }
            });
        }
        other => panic!("unknown depfile job {}", other),
    }
    res
}

pub fn case_from_marker(job: &str, bytes: &[u8]) -> Value {
    json!({"job": job, "bytes": bytes})
}
