//! C20: the pure render helpers of the fancy progress display, over all
//! widths, elapsed times, cut alignments and count vectors in the bounds.

use crate::worker::{catch, Ctx, Tier};
use serde_json::json;
use vcore::enumerate::{count_upto, for_range, shard_range};
use vcore::report::ShardResult;

const CHARS: &[&str] = &["a", "é", "€", "😀"];
const SECONDS: &[usize] = &[0, 2, 3, 9, 10, 99, 100, 999, 1000, 9999, 10_000, 99_999, 100_000, 999_999, 1_000_000];

pub fn jobs(tier: Tier) -> Vec<(String, u64)> {
    vec![
        ("render:message-align".into(), 16),
        (format!("render:message-short:{}", tier.pick(6, 8)), 16),
        ("render:truncate".into(), 8),
        (format!("render:bar:{}", tier.pick(5, 7)), 16),
        ("render:frame".into(), 4),
    ]
}

fn time_note(seconds: usize) -> String {
    if seconds > 2 {
        format!(" ({}s)", seconds)
    } else {
        String::new()
    }
}

fn check_message(msg: &str, seconds: usize, width: usize, job: &str, res: &mut ShardResult) {
    res.evaluations += 1;
    let replay = || json!({"job": job, "kind": "message", "msg": msg, "seconds": seconds, "width": width});
    match catch(|| n2::verif::verif_task_message(msg, seconds, width)) {
        Err(p) => res.violation(
            &p.key(),
            || format!("task_message({:?}, {}, {}) panicked: {} at {}", msg, seconds, width, p.message, p.location),
            replay,
        ),
        Ok(out) => {
            let note = time_note(seconds);
            let overlong = msg.len() + note.len() >= width;
            if overlong {
                res.nontrivial += 1;
                if out.len() > width {
                    res.violation(
                        "message-wider-than-terminal",
                        || format!("task_message({:?}, {}, {}) = {:?} is {} bytes", msg, seconds, width, out, out.len()),
                        replay,
                    );
                    return;
                }
                if note.len() + 3 > width {
                    // Not even "..." and the note fit: any prefix of them will do.
                    if !format!("...{}", note).starts_with(out.trim_start_matches(|c| c != '.')) && !out.is_empty() {
                        // (shape is unspecified here; width and validity were checked)
                    }
                    res.outcome("cut-narrow");
                    return;
                }
                if !out.ends_with(&note) {
                    res.violation(
                        "message-lost-time-note",
                        || format!("task_message({:?}, {}, {}) = {:?}", msg, seconds, width, out),
                        replay,
                    );
                    return;
                }
                let head = &out[..out.len() - note.len()];
                let kept = head.strip_suffix("...").unwrap_or(head);
                if !msg.starts_with(kept) {
                    res.violation(
                        "message-not-a-prefix",
                        || format!("task_message({:?}, {}, {}) = {:?}", msg, seconds, width, out),
                        replay,
                    );
                    return;
                }
                res.outcome("cut");
            } else {
                if out != format!("{}{}", msg, note) {
                    res.violation(
                        "short-message-altered",
                        || format!("task_message({:?}, {}, {}) = {:?}", msg, seconds, width, out),
                        replay,
                    );
                    return;
                }
                res.outcome("uncut");
            }
        }
    }
}

fn check_truncate(s: &str, max: usize, job: &str, res: &mut ShardResult) {
    res.evaluations += 1;
    let replay = || json!({"job": job, "kind": "truncate", "msg": s, "width": max});
    match catch(|| n2::verif::verif_truncate(s, max).to_string()) {
        Err(p) => res.violation(
            &p.key(),
            || format!("truncate({:?}, {}) panicked: {}", s, max, p.message),
            replay,
        ),
        Ok(out) => {
            if out.len() > max || !s.starts_with(&out) || (s.len() <= max && out != s) {
                res.violation(
                    "truncate-wrong",
                    || format!("truncate({:?}, {}) = {:?}", s, max, out),
                    replay,
                );
            } else {
                // Cut as late as possible: next boundary would exceed max.
                if out.len() < s.len() {
                    res.nontrivial += 1;
                    let next = s[out.len()..].chars().next().map(|c| c.len_utf8()).unwrap_or(0);
                    if out.len() + next <= max {
                        res.violation(
                            "truncate-cuts-too-early",
                            || format!("truncate({:?}, {}) = {:?}", s, max, out),
                            replay,
                        );
                        return;
                    }
                    res.outcome("cut");
                } else {
                    res.outcome("uncut");
                }
            }
        }
    }
}

fn check_bar(counts: [usize; 6], size: usize, job: &str, res: &mut ShardResult) {
    res.evaluations += 1;
    let replay = || json!({"job": job, "kind": "bar", "counts": counts, "width": size});
    match catch(|| n2::verif::verif_progress_bar(counts, size)) {
        Err(p) => res.violation(
            &p.key(),
            || format!("progress_bar({:?}, {}) panicked: {}", counts, size, p.message),
            replay,
        ),
        Ok(bar) => {
            if bar.len() != size || bar.chars().count() != size {
                res.violation(
                    "bar-width-not-nominal",
                    || format!("progress_bar({:?}, {}) = {:?} has width {}", counts, size, bar, bar.len()),
                    replay,
                );
                return;
            }
            // Shape: '=' then '-' then ' '.
            let t = bar.trim_start_matches('=').trim_start_matches('-').trim_start_matches(' ');
            if !t.is_empty() {
                res.violation(
                    "bar-shape",
                    || format!("progress_bar({:?}, {}) = {:?}", counts, size, bar),
                    replay,
                );
                return;
            }
            if counts.iter().filter(|&&c| c > 0).count() >= 2 {
                res.nontrivial += 1;
            }
            res.outcome(&format!(
                "bar-{}{}{}",
                if bar.contains('=') { "=" } else { "" },
                if bar.contains('-') { "-" } else { "" },
                if bar.contains(' ') { "_" } else { "" }
            ));
        }
    }
}

/// Messages whose cut index (width - note - 3) falls at every offset of a
/// 1/2/3/4-byte character.
fn aligned_messages(width: usize, seconds: usize, f: &mut dyn FnMut(&str)) {
    let note = time_note(seconds);
    let cut = width as i64 - note.len() as i64 - 3;
    for ch in CHARS {
        let clen = ch.len() as i64;
        // Place the multi-byte character so that it starts at cut - k.
        for k in 0..clen {
            let start = cut - k;
            if start < 0 {
                continue;
            }
            for total in [width.saturating_sub(1), width, width + 1, width + 10, 4 * width] {
                let mut m = "x".repeat(start as usize);
                m.push_str(ch);
                while m.len() < total {
                    m.push('y');
                }
                f(&m);
                // The same, made entirely of this character after the prefix.
                let mut m2 = "x".repeat(start as usize);
                while m2.len() < total {
                    m2.push_str(ch);
                }
                f(&m2);
            }
        }
    }
}

pub fn run(ctx: &mut Ctx) -> ShardResult {
    let mut res = ShardResult::default();
    let job = ctx.job.clone();
    if let Some(case) = &ctx.replay {
        let msg = case["msg"].as_str().unwrap_or("").to_string();
        let width = case["width"].as_u64().unwrap_or(0) as usize;
        match case["kind"].as_str().unwrap_or("") {
            "message" => check_message(&msg, case["seconds"].as_u64().unwrap_or(0) as usize, width, &job, &mut res),
            "truncate" => check_truncate(&msg, width, &job, &mut res),
            "bar" => {
                let mut c = [0usize; 6];
                for (i, x) in case["counts"].as_array().expect("counts").iter().enumerate() {
                    c[i] = x.as_u64().unwrap_or(0) as usize;
                }
                check_bar(c, width, &job, &mut res);
            }
            "frame" => {
                crate::eng_load::capture_stdout_begin();
                // The terminal may have had another width when the process
                // painted its first frame (a resize during the build).
                if let Some(first) = case["first_width"].as_u64() {
                    let mut scratch = ShardResult::default();
                    check_frame(0, "x", 0, first as usize, None, first as usize, &job, &mut scratch);
                }
                check_frame(case["counts_small"].as_u64().unwrap_or(0) as usize, &msg, case["seconds"].as_u64().unwrap_or(0), width, case["line"].as_str(), case["first_width"].as_u64().unwrap_or(width as u64) as usize, &job, &mut res);
                crate::eng_load::capture_stdout_end();
            }
            other => panic!("unknown render replay kind {}", other),
        }
        return res;
    }
    let parts: Vec<&str> = job.split(':').collect();
    match parts[1] {
        "message-align" => {
            let mut idx = 0u64;
            for width in 10..=300usize {
                if (width as u64) % ctx.nshards != ctx.shard {
                    continue;
                }
                for &s in SECONDS {
                    aligned_messages(width, s, &mut |m| {
                        idx += 1;
                        ctx.marker.set(idx, m.as_bytes());
                        check_message(m, s, width, &job, &mut res);
                        if idx % 50_021 == 0 {
                            res.sample(|| json!({"msg": m, "seconds": s, "width": width}));
                        }
                    });
                }
            }
        }
        "message-short" => {
            let max: u32 = parts[2].parse().expect("bound");
            let k = CHARS.len() as u64;
            let total = count_upto(k, 0, max);
            let (lo, hi) = shard_range(total, ctx.shard, ctx.nshards);
            let mut m = String::new();
            for_range(k, 0, max, lo, hi, |idx, seq| {
                m.clear();
                for &c in seq {
                    m.push_str(CHARS[c as usize]);
                }
                ctx.marker.set(idx, m.as_bytes());
                for width in 10..=14usize {
                    for &s in &[0usize, 3, 100, 1000, 1_000_000] {
                        check_message(&m, s, width, &job, &mut res);
                    }
                    check_truncate(&m, width - 2, &job, &mut res);
                }
                if idx % 1009 == 0 {
                    res.sample(|| json!({"msg": m}));
                }
            });
        }
        "truncate" => {
            let mut idx = 0u64;
            for max in 0..=300usize {
                if (max as u64) % ctx.nshards != ctx.shard {
                    continue;
                }
                for ch in CHARS {
                    for k in 0..ch.len() {
                        if max < k {
                            continue;
                        }
                        for total in [max.saturating_sub(1), max, max + 1, max + 7] {
                            let mut m = "x".repeat(max - k);
                            m.push_str(ch);
                            while m.len() < total {
                                m.push_str(ch);
                            }
                            idx += 1;
                            ctx.marker.set(idx, m.as_bytes());
                            check_truncate(&m, max, &job, &mut res);
                        }
                    }
                }
            }
        }
        "bar" => {
            let maxc: u64 = parts[2].parse().expect("bound");
            let k = maxc + 1;
            let total = k.pow(6);
            let (lo, hi) = shard_range(total, ctx.shard, ctx.nshards);
            for idx in lo..hi {
                let d = vcore::enumerate::mixed_decode(idx, &[k; 6]);
                let counts = [d[0] as usize, d[1] as usize, d[2] as usize, d[3] as usize, d[4] as usize, d[5] as usize];
                ctx.marker.set(idx, format!("{:?}", counts).as_bytes());
                for size in [1usize, 2, 3, 5, 7, 10, 39, 40] {
                    check_bar(counts, size, &job, &mut res);
                }
                // Scaled vectors (large builds).
                if idx % 7 == 0 {
                    for scale in [10usize, 1000, 100_000] {
                        let c = counts.map(|x| x * scale);
                        check_bar(c, 40, &job, &mut res);
                    }
                }
                if idx % 20_011 == 0 {
                    res.sample(|| json!({"counts": counts, "bar40": n2::verif::verif_progress_bar(counts, 40)}));
                }
            }
            if ctx.shard == 0 {
                for size in 1..=40 {
                    for c in [[0usize; 6], [1, 0, 0, 0, 0, 0], [0, 0, 0, 0, 1, 0], [1, 1, 1, 1, 1, 1], [100, 50, 0, 3, 2, 1]] {
                        check_bar(c, size, &job, &mut res);
                    }
                }
            }
        }
        "frame" => {
            crate::exec::install_hooks();
            crate::eng_load::capture_stdout_begin();
            let mut idx = 0u64;
            // Widths are visited from wide to narrow inside one process: the
            // terminal is resized between frames, and a width remembered from
            // an earlier frame would make later rows too long.
            let mut first_width = 0usize;
            for width in (10..=300u64).rev() {
                if width % ctx.nshards != ctx.shard {
                    continue;
                }
                if first_width == 0 {
                    first_width = width as usize;
                }
                for &s in &[0u64, 5, 1000, 1_000_000] {
                    for ch in CHARS {
                        for len in [width as usize - 4, width as usize - 1, width as usize, width as usize + 5] {
                            let mut m = String::new();
                            while m.len() < len {
                                m.push_str(ch);
                            }
                            for line in [None, Some(m.as_str())] {
                                idx += 1;
                                ctx.marker.set(idx, m.as_bytes());
                                check_frame((idx % 5) as usize, &m, s, width as usize, line, first_width, &job, &mut res);
                            }
                        }
                    }
                }
            }
            crate::eng_load::capture_stdout_end();
        }
        other => panic!("unknown render job {}", other),
    }
    res
}

/// One whole frame of the display through the real print_progress, at a
/// forced terminal width.  Output goes to the worker's stdout (discarded).
fn check_frame(counts_small: usize, msg: &str, seconds: u64, width: usize, line: Option<&str>, first_width: usize, job: &str, res: &mut ShardResult) {
    res.evaluations += 1;
    crate::exec::install_hooks();
    crate::exec::set_cols(Some(Some(width)));
    let counts = [counts_small, 1, 0, 1, counts_small * 2, counts_small % 2];
    let tasks = vec![(msg.to_string(), seconds, line.map(|l| l.as_bytes().to_vec()))];
    crate::eng_load::capture_stdout_reset();
    let r = catch(|| n2::verif::verif_print_progress(counts, &tasks));
    crate::exec::set_cols(None);
    match r {
        Ok(()) => {
            // The frame as printed: first the bar line, then one line per task
            // and one per last output line; those must fit the terminal.
            let mut raw = Vec::new();
            {
                use std::io::{Read, Write};
                let _ = std::io::stdout().flush();
                if let Ok(mut f) = std::fs::File::open("stdout.cap") {
                    let _ = f.read_to_end(&mut raw);
                }
            }
            let lines: Vec<&[u8]> = raw.split(|&c| c == b'\n').collect();
            let mut bad: Option<String> = None;
            for l in lines.iter().skip(1) {
                if l.starts_with(b"\x1b") || l.is_empty() {
                    continue;
                }
                if l.len() > width {
                    bad = Some(format!("a line of {} bytes on a {}-column terminal: {:?}", l.len(), width, String::from_utf8_lossy(l)));
                }
                if std::str::from_utf8(l).is_err() {
                    bad = Some(format!("a line that is not valid UTF-8: {:?}", l));
                }
            }
            if lines.len() < 2 {
                bad = Some("nothing was printed".to_string());
            }
            match bad {
                None => {
                    res.nontrivial += 1;
                    res.outcome("frame-rendered");
                }
                Some(b) => res.violation(
                    "frame-line-wider-than-terminal",
                    || format!("print_progress at width {} with message {:?} ({} s), last line {:?}: {}", width, msg, seconds, line, b),
                    || json!({"job": job, "kind": "frame", "counts_small": counts_small, "msg": msg, "seconds": seconds, "width": width, "line": line, "first_width": first_width}),
                ),
            }
        }
        Err(p) => res.violation(
            &p.key(),
            || format!("print_progress at width {} with message {:?} ({} s), last line {:?} panicked: {} at {}", width, msg, seconds, line, p.message, p.location),
            || json!({"job": job, "kind": "frame", "counts_small": counts_small, "msg": msg, "seconds": seconds, "width": width, "line": line, "first_width": first_width}),
        ),
    }
}
