//! Parent side of a check: shards jobs over worker processes, merges their
//! results, classifies violations against known_findings.txt, writes replay
//! artefacts and the evidence file, prints the verdict lines.

use crate::checks;
use crate::worker::{read_marker, Tier};
use serde_json::{json, Value};
use std::path::{Path, PathBuf};
use std::process::{Child, Command, Stdio};
use std::time::{Duration, Instant};
use vcore::report::{parse_known_findings, Evidence, ShardResult};

const MAX_PARALLEL: usize = 16;

struct Running {
    child: Child,
    job: String,
    shard: u64,
    nshards: u64,
    scratch: PathBuf,
    marker: PathBuf,
    out: PathBuf,
    last_seq: u64,
    last_change: Instant,
    started: Instant,
    restarts: u32,
}

fn scratch_root() -> PathBuf {
    let base = if Path::new("/dev/shm").is_dir() {
        PathBuf::from("/dev/shm")
    } else {
        std::env::temp_dir()
    };
    base.join(format!("n2verif.{}", std::process::id()))
}

fn spawn(
    prop: &str,
    tier: Tier,
    job: &str,
    shard: u64,
    nshards: u64,
    resume_after: Option<u64>,
    root: &Path,
    restarts: u32,
) -> Running {
    let tag = format!("{}.{}.{}", job.replace([':', '/'], "_"), shard, restarts);
    let scratch = root.join(format!("w.{}", tag));
    let marker = root.join(format!("m.{}", tag));
    let out = root.join(format!("r.{}", tag));
    let stdout = std::fs::File::create(root.join(format!("o.{}", tag))).expect("stdout file");
    let stderr = std::fs::File::create(root.join(format!("e.{}", tag))).expect("stderr file");
    let _ = std::fs::remove_file(&marker);
    let exe = std::env::current_exe().expect("current exe");
    let child = Command::new(exe)
        .arg("worker")
        .arg(prop)
        .arg(tier.name())
        .arg(job)
        .arg(shard.to_string())
        .arg(nshards.to_string())
        .arg(match resume_after {
            Some(r) => r.to_string(),
            None => "-".to_string(),
        })
        .arg(&scratch)
        .arg(&marker)
        .arg(&out)
        .env("RUST_BACKTRACE", "0")
        .stdin(Stdio::null())
        .stdout(stdout)
        .stderr(stderr)
        .spawn()
        .expect("spawn worker");
    Running {
        child,
        job: job.to_string(),
        shard,
        nshards,
        scratch,
        marker,
        out,
        last_seq: u64::MAX,
        last_change: Instant::now(),
        started: Instant::now(),
        restarts,
    }
}

fn tail(path: &Path, n: usize) -> String {
    let data = std::fs::read(path).unwrap_or_default();
    let text = String::from_utf8_lossy(&data);
    let lines: Vec<&str> = text.lines().collect();
    let start = lines.len().saturating_sub(n);
    lines[start..].join("\n")
}

pub fn run_check(id: &str, tier_name: &str) -> i32 {
    let tier = Tier::parse(tier_name);
    let Some(spec) = checks::spec(id, tier) else {
        eprintln!("n2verif: no check for property {}", id);
        return 2;
    };
    let started = Instant::now();
    let root = scratch_root();
    // Remove scratch directories left behind by parents that were killed.
    if let Some(base) = root.parent() {
        if let Ok(rd) = std::fs::read_dir(base) {
            for ent in rd.flatten() {
                let name = ent.file_name().to_string_lossy().into_owned();
                if let Some(pid) = name.strip_prefix("n2verif.").and_then(|p| p.parse::<u32>().ok()) {
                    if !Path::new(&format!("/proc/{}", pid)).exists() {
                        let _ = std::fs::remove_dir_all(ent.path());
                    }
                }
            }
        }
    }
    let _ = std::fs::remove_dir_all(&root);
    std::fs::create_dir_all(&root).expect("create scratch root");

    let mut queue: Vec<(String, u64, u64, Option<u64>, u32)> = Vec::new();
    for (job, nshards) in &spec.jobs {
        for s in 0..*nshards {
            queue.push((job.clone(), s, *nshards, None, 0));
        }
    }
    queue.reverse();
    let mut running: Vec<Running> = Vec::new();
    let mut total = ShardResult::default();
    let mut machinery_errors: Vec<String> = Vec::new();

    while !queue.is_empty() || !running.is_empty() {
        while running.len() < MAX_PARALLEL {
            let Some((job, shard, nshards, resume, restarts)) = queue.pop() else {
                break;
            };
            running.push(spawn(id, tier, &job, shard, nshards, resume, &root, restarts));
        }
        std::thread::sleep(Duration::from_millis(20));
        let mut i = 0;
        while i < running.len() {
            let r = &mut running[i];
            let status = r.child.try_wait().expect("try_wait");
            let marker_now = read_marker(&r.marker);
            if let Some((seq, _, _)) = &marker_now {
                if *seq != r.last_seq {
                    r.last_seq = *seq;
                    r.last_change = Instant::now();
                }
            }
            let hung = status.is_none()
                && (r.last_change.elapsed() > Duration::from_secs(spec.hang_secs)
                    || r.started.elapsed() > Duration::from_secs(spec.shard_wall_secs));
            if status.is_none() && !hung {
                i += 1;
                continue;
            }
            let mut r = running.swap_remove(i);
            let mut what = String::new();
            if hung {
                let _ = r.child.kill();
                let _ = r.child.wait();
                what = if r.started.elapsed() > Duration::from_secs(spec.shard_wall_secs) {
                    "wallcap".to_string()
                } else {
                    "hang".to_string()
                };
            } else if let Some(st) = status {
                if !st.success() {
                    use std::os::unix::process::ExitStatusExt;
                    what = match st.signal() {
                        Some(sig) => format!("signal{}", sig),
                        None => format!("exit{}", st.code().unwrap_or(-1)),
                    };
                }
            }
            if what.is_empty() {
                // Normal completion.
                match std::fs::read_to_string(&r.out)
                    .ok()
                    .and_then(|t| serde_json::from_str::<Value>(&t).ok())
                    .and_then(|v| ShardResult::from_json(&v))
                {
                    Some(res) => total.merge(res),
                    None => machinery_errors.push(format!(
                        "job {} shard {}: unreadable result file",
                        r.job, r.shard
                    )),
                }
            } else if what == "wallcap" {
                total.caps.push(format!(
                    "job {} shard {}/{} stopped at the wall cap of {} s; its remaining cases were not explored",
                    r.job, r.shard, r.nshards, spec.shard_wall_secs
                ));
            } else {
                // Abort or hang: attribute to the case in the marker.
                let errtail = tail(&root.join(format!(
                    "e.{}.{}.{}",
                    r.job.replace([':', '/'], "_"),
                    r.shard,
                    r.restarts
                )), 12);
                match marker_now {
                    Some((_, index, bytes)) if r.last_seq != u64::MAX => {
                        let case = checks::case_from_marker(id, &r.job, index, &bytes);
                        match checks::abort_is_violation(id, &r.job) {
                            true => {
                                let key = format!("{}:{}", what, abort_site(&errtail));
                                let detail = format!(
                                    "worker terminated ({}) while executing this case; stderr tail:\n{}",
                                    what, errtail
                                );
                                total.violation(&key, || detail, || case);
                                total.evaluations += 1;
                                // Resume the shard after the offending case.
                                if r.restarts < spec.max_restarts {
                                    queue.push((
                                        r.job.clone(),
                                        r.shard,
                                        r.nshards,
                                        Some(index),
                                        r.restarts + 1,
                                    ));
                                } else {
                                    total.caps.push(format!(
                                        "job {} shard {}: more than {} aborting cases, rest of shard not explored",
                                        r.job, r.shard, spec.max_restarts
                                    ));
                                }
                            }
                            false => machinery_errors.push(format!(
                                "job {} shard {}: worker terminated ({}) at case {}:\n{}",
                                r.job, r.shard, what, case, errtail
                            )),
                        }
                    }
                    _ => machinery_errors.push(format!(
                        "job {} shard {}: worker terminated ({}) before its first case:\n{}",
                        r.job, r.shard, what, errtail
                    )),
                }
            }
            let _ = std::fs::remove_dir_all(&r.scratch);
        }
    }

    if total.samples.is_empty() && total.evaluations > 0 {
        machinery_errors.push("no sample case was recorded".to_string());
    }
    // Vacuity guards: counters that must be non-zero for this check.
    for name in &spec.must_be_nonzero {
        if total.counters.get(*name).copied().unwrap_or(0) == 0 {
            machinery_errors.push(format!("vacuity guard: counter {:?} is zero", name));
        }
    }

    // Classify violations.
    let known_text = std::fs::read_to_string("known_findings.txt").unwrap_or_default();
    let known: Vec<_> = parse_known_findings(&known_text)
        .into_iter()
        .filter(|k| !k.fixed && k.property == id)
        .collect();
    let mut known_hits: Vec<(String, u64)> = Vec::new();
    let mut new_keys: Vec<String> = Vec::new();
    let mut new_count = 0u64;
    for (cname, n) in &total.counters {
        if let Some(key) = cname.strip_prefix("violation:") {
            if let Some(k) = known.iter().find(|k| key.starts_with(&k.key)) {
                match known_hits.iter_mut().find(|(kk, _)| *kk == k.key) {
                    Some(h) => h.1 += n,
                    None => known_hits.push((k.key.clone(), *n)),
                }
            } else {
                new_count += n;
                new_keys.push(key.to_string());
            }
        }
    }

    let replay_dir = PathBuf::from("replays").join(id);
    let mut printed = Vec::new();
    let mut exit = 0;
    for k in &known {
        if let Some((_, n)) = known_hits.iter().find(|(kk, _)| *kk == k.key) {
            println!(
                "KNOWN-FINDING: property={} {} [key={} cases={}]",
                id, k.text, k.key, n
            );
        }
    }
    if !new_keys.is_empty() {
        std::fs::create_dir_all(&replay_dir).expect("create replay dir");
        let mut n = 0;
        for v in &total.violations {
            if !new_keys.iter().any(|k| *k == v.key) {
                continue;
            }
            if printed.iter().filter(|k: &&String| **k == v.key).count() >= 1 {
                continue;
            }
            printed.push(v.key.clone());
            n += 1;
            let path = replay_dir.join(format!("{}-{}.json", tier.name(), n));
            let doc = json!({
                "property": id,
                "key": v.key,
                "detail": v.detail,
                "case": v.replay,
            });
            std::fs::write(&path, serde_json::to_string_pretty(&doc).unwrap())
                .expect("write replay");
            // Replay twice outside the explorer; the observations must agree.
            let abs = std::fs::canonicalize(&path).unwrap_or(path.clone());
            let a = replay_subprocess(&abs);
            let b = replay_subprocess(&abs);
            if a != b {
                machinery_errors.push(format!(
                    "replay of {} is not deterministic:\n--- first\n{}\n--- second\n{}",
                    abs.display(),
                    a,
                    b
                ));
                continue;
            }
            if !a.contains("REPLAY-VIOLATION") {
                machinery_errors.push(format!(
                    "violation {} did not reproduce on replay of {}:\n{}",
                    v.key,
                    abs.display(),
                    a
                ));
                continue;
            }
            println!("--- {} [{}]\n{}", id, v.key, v.detail);
            println!("VIOLATION property={} replay={}", id, abs.display());
            exit = 1;
        }
        if exit == 0 && machinery_errors.is_empty() {
            // Counted violations whose artefacts were all dropped by caps.
            machinery_errors.push("violations counted but no artefact kept".to_string());
        }
    }

    let wall = started.elapsed().as_secs_f64();
    let seed = std::env::var("VERIF_SEED")
        .ok()
        .and_then(|s| s.parse::<i64>().ok())
        .unwrap_or(0);
    let mut extra = serde_json::Map::new();
    extra.insert(
        "jobs".into(),
        json!(spec
            .jobs
            .iter()
            .map(|(j, n)| json!({"job": j, "shards": n}))
            .collect::<Vec<_>>()),
    );
    extra.insert("bounds".into(), json!(spec.bounds));
    if !machinery_errors.is_empty() {
        extra.insert("machinery_errors".into(), json!(machinery_errors));
    }
    let ev = Evidence {
        property: id,
        tier: tier.name(),
        seed,
        level: spec.level,
        rule: &spec.rule,
        exhaustive: spec.exhaustive,
        assumptions: spec.assumptions.clone(),
        wall_s: wall,
        result: &total,
        new_violations: new_count,
        known_hits: known_hits.clone(),
        extra,
    };
    std::fs::create_dir_all("evidence").expect("create evidence dir");
    std::fs::write(
        format!("evidence/{}.json", id),
        serde_json::to_string_pretty(&ev.to_json()).unwrap() + "\n",
    )
    .expect("write evidence");

    let _ = std::fs::remove_dir_all(&root);

    println!(
        "{} {}: {} cases, {} non-trivial, {} states, {} transitions, {} outcome classes, {} new violating cases, {} known-finding cases, {:.1} s",
        id,
        tier.name(),
        total.evaluations,
        total.nontrivial,
        total.states,
        total.transitions,
        total.outcomes.len(),
        new_count,
        known_hits.iter().map(|(_, n)| n).sum::<u64>(),
        wall
    );
    for c in &total.caps {
        println!("CAP: {}", c);
    }
    if !machinery_errors.is_empty() {
        for e in &machinery_errors {
            eprintln!("MACHINERY-ERROR: {}", e);
        }
        if exit == 0 {
            return 2;
        }
    }
    exit
}

/// Extracts a short site description from a worker's stderr tail (panic
/// location or the like) for use in violation keys.
fn abort_site(errtail: &str) -> String {
    for line in errtail.lines() {
        if let Some(rest) = line.strip_prefix("abort after: panicked at ") {
            let loc = rest.split(':').next().unwrap_or("").trim_start_matches("/repo/");
            let what = if rest.contains("unsafe precondition") {
                "unsafe-precondition"
            } else {
                "non-unwinding-panic"
            };
            return format!("{}:{}", what, loc);
        }
    }
    for line in errtail.lines() {
        if let Some(pos) = line.find("panicked at ") {
            let rest = &line[pos + 12..];
            let loc = rest.split(':').next().unwrap_or("");
            return loc.trim_start_matches("/repo/").to_string();
        }
    }
    for line in errtail.lines() {
        if line.contains("unsafe precondition") {
            let what = if errtail.contains("get_unchecked") { ":get_unchecked" } else { "" };
            return format!("unsafe-precondition{}", what);
        }
        if line.contains("stack overflow") || line.contains("has overflowed its stack") {
            return "stack-overflow".to_string();
        }
    }
    "unknown".to_string()
}

fn replay_subprocess(path: &Path) -> String {
    let exe = std::env::current_exe().expect("current exe");
    let out = Command::new(exe)
        .arg("replay")
        .arg(path)
        .env("RUST_BACKTRACE", "0")
        .stdin(Stdio::null())
        .output();
    match out {
        Ok(o) => {
            use std::os::unix::process::ExitStatusExt;
            let mut s = String::from_utf8_lossy(&o.stdout).into_owned();
            if let Some(sig) = o.status.signal() {
                s.push_str(&format!("REPLAY-VIOLATION terminated by signal {}\n", sig));
            }
            // Only the verdict lines are compared.
            s.lines()
                .filter(|l| l.starts_with("REPLAY-"))
                .collect::<Vec<_>>()
                .join("\n")
        }
        Err(e) => format!("spawn failed: {}", e),
    }
}

/// `n2verif replay <file>`: runs one recorded case in a scratch directory and
/// prints `REPLAY-VIOLATION <key>: <detail>` lines or `REPLAY-OK`.
pub fn run_replay(file: &str) -> i32 {
    let text = std::fs::read_to_string(file).expect("read replay file");
    let doc: Value = serde_json::from_str(&text).expect("parse replay file");
    let prop = doc["property"].as_str().expect("property").to_string();
    let case = doc["case"].clone();
    let job = case["job"].as_str().expect("case.job").to_string();
    let root = scratch_root();
    let _ = std::fs::remove_dir_all(&root);
    std::fs::create_dir_all(&root).expect("scratch");
    std::env::set_current_dir(&root).expect("chdir");
    let mut ctx = crate::worker::Ctx {
        prop: prop.clone(),
        tier: Tier::Quick,
        job,
        shard: 0,
        nshards: 1,
        resume_after: None,
        scratch: root.clone(),
        marker: crate::worker::Marker::none(),
        replay: Some(case),
    };
    let res = checks::run_job(&mut ctx);
    crate::exec::restore_stdout();
    let _ = std::env::set_current_dir("/");
    let _ = std::fs::remove_dir_all(&root);
    if res.violations.is_empty() {
        println!("REPLAY-OK {} cases", res.evaluations);
        0
    } else {
        for v in &res.violations {
            println!("REPLAY-VIOLATION {}", v.key);
            println!("{}", v.detail);
        }
        1
    }
}
