//! Worker side: one shard of one job, run in its own process and its own
//! scratch directory.  The worker keeps a shared-memory marker describing the
//! case it is currently executing so that the parent can attribute an abort or
//! a hang to a concrete input.

use serde_json::Value;
use std::path::{Path, PathBuf};
use vcore::report::ShardResult;

#[derive(Clone, Copy, PartialEq, Eq, Debug)]
pub enum Tier {
    Quick,
    Thorough,
}

impl Tier {
    pub fn parse(s: &str) -> Tier {
        match s {
            "thorough" => Tier::Thorough,
            _ => Tier::Quick,
        }
    }
    pub fn name(self) -> &'static str {
        match self {
            Tier::Quick => "quick",
            Tier::Thorough => "thorough",
        }
    }
    pub fn pick<T>(self, quick: T, thorough: T) -> T {
        match self {
            Tier::Quick => quick,
            Tier::Thorough => thorough,
        }
    }
}

pub const MARKER_SIZE: usize = 1 << 16;

pub struct Marker {
    ptr: *mut u8,
}

impl Marker {
    pub fn open(path: &Path) -> Marker {
        use std::os::fd::AsRawFd;
        let f = std::fs::OpenOptions::new()
            .read(true)
            .write(true)
            .create(true)
            .open(path)
            .expect("open marker");
        f.set_len(MARKER_SIZE as u64).expect("size marker");
        let ptr = unsafe {
            libc::mmap(
                std::ptr::null_mut(),
                MARKER_SIZE,
                libc::PROT_READ | libc::PROT_WRITE,
                libc::MAP_SHARED,
                f.as_raw_fd(),
                0,
            )
        };
        assert!(ptr != libc::MAP_FAILED, "mmap marker");
        Marker {
            ptr: ptr as *mut u8,
        }
    }

    pub fn none() -> Marker {
        Marker {
            ptr: std::ptr::null_mut(),
        }
    }

    /// Layout: [u64 seq][u64 index][u32 len][bytes].
    #[inline]
    pub fn set(&self, index: u64, bytes: &[u8]) {
        if self.ptr.is_null() {
            return;
        }
        let n = bytes.len().min(MARKER_SIZE - 24);
        unsafe {
            let seq = std::ptr::read_volatile(self.ptr as *const u64);
            std::ptr::write_volatile(self.ptr.add(8) as *mut u64, index);
            std::ptr::write_volatile(self.ptr.add(16) as *mut u32, n as u32);
            std::ptr::copy_nonoverlapping(bytes.as_ptr(), self.ptr.add(20), n);
            std::ptr::write_volatile(self.ptr as *mut u64, seq.wrapping_add(1));
        }
    }

    /// Bump the sequence number only (liveness signal inside a long case).
    #[inline]
    pub fn tick(&self) {
        if self.ptr.is_null() {
            return;
        }
        unsafe {
            let seq = std::ptr::read_volatile(self.ptr as *const u64);
            std::ptr::write_volatile(self.ptr as *mut u64, seq.wrapping_add(1));
        }
    }
}

/// Reads (seq, index, bytes) from a marker file.
pub fn read_marker(path: &Path) -> Option<(u64, u64, Vec<u8>)> {
    let data = std::fs::read(path).ok()?;
    if data.len() < 24 {
        return None;
    }
    let seq = u64::from_le_bytes(data[0..8].try_into().ok()?);
    let index = u64::from_le_bytes(data[8..16].try_into().ok()?);
    let len = u32::from_le_bytes(data[16..20].try_into().ok()?) as usize;
    let bytes = data.get(20..20 + len)?.to_vec();
    Some((seq, index, bytes))
}

pub struct Ctx {
    pub prop: String,
    pub tier: Tier,
    pub job: String,
    pub shard: u64,
    pub nshards: u64,
    /// Skip all cases with linear index <= this (after an abort of this shard).
    pub resume_after: Option<u64>,
    pub scratch: PathBuf,
    pub marker: Marker,
    /// When set, run exactly this case instead of the shard.
    pub replay: Option<Value>,
}

impl Ctx {
    pub fn skip(&self, index: u64) -> bool {
        match self.resume_after {
            Some(r) => index <= r,
            None => false,
        }
    }
}

/// worker <prop> <tier> <job> <shard> <nshards> <resume_after|-> <scratch> <marker> <out>
pub fn worker_main(args: &[String]) -> i32 {
    if args.len() < 9 {
        eprintln!("worker: bad arguments");
        return 2;
    }
    let scratch = PathBuf::from(&args[6]);
    std::fs::create_dir_all(&scratch).expect("create scratch");
    std::env::set_current_dir(&scratch).expect("chdir scratch");
    let mut ctx = Ctx {
        prop: args[0].clone(),
        tier: Tier::parse(&args[1]),
        job: args[2].clone(),
        shard: args[3].parse().expect("shard"),
        nshards: args[4].parse().expect("nshards"),
        resume_after: args[5].parse().ok(),
        scratch,
        marker: Marker::open(Path::new(&args[7])),
        replay: None,
    };
    let result: ShardResult = crate::checks::run_job(&mut ctx);
    let text = serde_json::to_string(&result.to_json()).expect("serialize result");
    std::fs::write(&args[8], text).expect("write result");
    0
}

// ---------------------------------------------------------------------------
// Panic capture.

use std::cell::RefCell;
use std::sync::Mutex;

#[derive(Debug, Clone)]
pub struct PanicRecord {
    pub message: String,
    /// file:line of the panic site, with the /repo/ prefix removed.
    pub location: String,
    pub thread_is_main: bool,
}

thread_local! {
    static LAST_PANIC: RefCell<Option<PanicRecord>> = const { RefCell::new(None) };
}
static OTHER_THREAD_PANICS: Mutex<Vec<PanicRecord>> = Mutex::new(Vec::new());
static MAIN_THREAD: std::sync::OnceLock<std::thread::ThreadId> = std::sync::OnceLock::new();

static mut ABORT_TEXT: [u8; 600] = [0; 600];
static ABORT_LEN: std::sync::atomic::AtomicUsize = std::sync::atomic::AtomicUsize::new(0);

fn remember_for_abort(text: &str) {
    let b = text.as_bytes();
    let n = b.len().min(600);
    unsafe {
        let p = std::ptr::addr_of_mut!(ABORT_TEXT) as *mut u8;
        std::ptr::copy_nonoverlapping(b.as_ptr(), p, n);
    }
    ABORT_LEN.store(n, std::sync::atomic::Ordering::SeqCst);
}

fn forget_for_abort() {
    ABORT_LEN.store(0, std::sync::atomic::Ordering::SeqCst);
}

extern "C" fn on_sigabrt(_sig: libc::c_int) {
    let n = ABORT_LEN.load(std::sync::atomic::Ordering::SeqCst);
    unsafe {
        if n > 0 {
            let head = b"abort after: ";
            libc::write(2, head.as_ptr() as *const libc::c_void, head.len());
            let p = std::ptr::addr_of!(ABORT_TEXT) as *const u8;
            libc::write(2, p as *const libc::c_void, n);
            libc::write(2, b"\n".as_ptr() as *const libc::c_void, 1);
        }
        libc::signal(libc::SIGABRT, libc::SIG_DFL);
        libc::abort();
    }
}

/// Installs a silent panic hook that records message and location.
pub fn install_panic_hook() {
    let _ = MAIN_THREAD.set(std::thread::current().id());
    unsafe {
        libc::signal(libc::SIGABRT, on_sigabrt as *const () as libc::sighandler_t);
    }
    std::panic::set_hook(Box::new(|info| {
        let message = if let Some(s) = info.payload().downcast_ref::<&str>() {
            s.to_string()
        } else if let Some(s) = info.payload().downcast_ref::<String>() {
            s.clone()
        } else if info.payload().is::<crate::exec::CrashMarker>() {
            "<crash marker>".to_string()
        } else if let Some(s) = info.payload().downcast_ref::<crate::exec::StopMarker>() {
            format!("<stop marker> {}", s.0)
        } else {
            "<non-string panic payload>".to_string()
        };
        let location = info
            .location()
            .map(|l| format!("{}:{}", l.file().trim_start_matches("/repo/"), l.line()))
            .unwrap_or_default();
        // If this panic cannot unwind the process aborts right after the
        // hook; the SIGABRT handler then prints this text for the parent.
        remember_for_abort(&format!("panicked at {}: {}", location, message));
        let is_main = MAIN_THREAD.get() == Some(&std::thread::current().id());
        let rec = PanicRecord {
            message,
            location,
            thread_is_main: is_main,
        };
        if is_main {
            LAST_PANIC.with(|p| *p.borrow_mut() = Some(rec));
        } else {
            OTHER_THREAD_PANICS.lock().unwrap().push(rec);
        }
    }));
}

/// Runs `f`, converting a panic into its record.
pub fn catch<T>(f: impl FnOnce() -> T) -> Result<T, PanicRecord> {
    LAST_PANIC.with(|p| *p.borrow_mut() = None);
    let r = std::panic::catch_unwind(std::panic::AssertUnwindSafe(f));
    forget_for_abort();
    match r {
        Ok(v) => Ok(v),
        Err(_) => Err(LAST_PANIC
            .with(|p| p.borrow_mut().take())
            .unwrap_or(PanicRecord {
                message: "<panic without record>".into(),
                location: String::new(),
                thread_is_main: true,
            })),
    }
}

/// Panics recorded on threads other than the main one since the last call.
pub fn take_other_thread_panics() -> Vec<PanicRecord> {
    std::mem::take(&mut *OTHER_THREAD_PANICS.lock().unwrap())
}

impl PanicRecord {
    /// Site key: file (without line, so unrelated edits do not change it) plus
    /// a normalised message prefix.
    pub fn key(&self) -> String {
        let file = self.location.rsplit_once(':').map(|x| x.0).unwrap_or("");
        let msg: String = self
            .message
            .chars()
            .take_while(|&c| c != ':' && c != '\n')
            .take(48)
            .map(|c| match c {
                ' ' => '_',
                '0'..='9' => '#',
                c => c,
            })
            .collect();
        format!("panic:{}:{}", file, msg)
    }
}
