//! Registry: which jobs make up the check of each property, and dispatch of
//! a job to its engine.

use crate::worker::{Ctx, Tier};
use crate::*;
use serde_json::{json, Value};
use vcore::report::ShardResult;

pub struct CheckSpec {
    pub level: &'static str,
    pub rule: String,
    pub assumptions: Vec<String>,
    pub jobs: Vec<(String, u64)>,
    /// True when every job enumerates its finite space completely.
    pub exhaustive: bool,
    pub hang_secs: u64,
    pub shard_wall_secs: u64,
    pub max_restarts: u32,
    pub must_be_nonzero: Vec<&'static str>,
    pub bounds: Value,
}

impl CheckSpec {
    fn new(level: &'static str, tier: Tier) -> CheckSpec {
        CheckSpec {
            level,
            rule: String::new(),
            assumptions: Vec::new(),
            jobs: Vec::new(),
            exhaustive: true,
            hang_secs: 30,
            shard_wall_secs: tier.pick(240, 3000),
            max_restarts: 40,
            must_be_nonzero: Vec::new(),
            bounds: json!({}),
        }
    }
}

pub fn spec(id: &str, tier: Tier) -> Option<CheckSpec> {
    let spec = match id {
        "C13" => {
            let mut s = CheckSpec::new("exploration", tier);
            s.jobs = eng_canon::jobs(tier);
            s.jobs.extend(eng_load::jobs_nodeid(tier));
            s.rule = "every path string of length 1..=N over {a,b,.,/,\\} and over {é,€,.,/,\\}, plus 55..63-component paths with up to two special components; each compared byte-for-byte with a reference component walk and checked for idempotence, no lengthening, canonical form and unchanged location; plus all pairs of spellings of three locations through manifest / command line / depfile. Non-trivial = the canonical form differs from the input (or, for node identity, the two spellings differ).".into();
            s.assumptions = vec![
                "both '/' and '\\' are separators; a component keeps the separator that followed it".into(),
                "paths needing more than 60 stacked components are outside C13 (see C12)".into(),
            ];
            s.bounds = json!({"ascii_len": tier.pick(9, 11), "utf8_len": tier.pick(7, 9), "deep_components": "55..=63"});
            s
        }
        _ => return None,
    };
    Some(spec)
}

pub fn run_job(ctx: &mut Ctx) -> ShardResult {
    crate::worker::install_panic_hook();
    let engine = ctx.job.split(':').next().unwrap_or("").to_string();
    match engine.as_str() {
        "canon" => eng_canon::run(ctx),
        "load" => eng_load::run(ctx),
        "depfile" => eng_depfile::run(ctx),
        "render" => eng_render::run(ctx),
        "total" => eng_total::run(ctx),
        "dbrt" => eng_dbrt::run(ctx),
        "sched" => eng_sched::run(ctx),
        "hist" => eng_hist::run(ctx),
        "crash" => eng_crash::run(ctx),
        "proc" => eng_proc::run(ctx),
        other => panic!("unknown engine {:?}", other),
    }
}

/// Reconstructs a replayable case from what a dead worker left in its marker.
pub fn case_from_marker(_prop: &str, job: &str, index: u64, bytes: &[u8]) -> Value {
    let engine = job.split(':').next().unwrap_or("");
    match engine {
        "canon" => eng_canon::case_from_marker(job, index, bytes),
        _ => json!({"job": job, "index": index, "marker": String::from_utf8_lossy(bytes)}),
    }
}

/// Whether a worker abort (signal, non-unwinding panic) or hang while running
/// a case of this job counts against the property (true) or is a machinery
/// failure (false).
pub fn abort_is_violation(prop: &str, job: &str) -> bool {
    let engine = job.split(':').next().unwrap_or("");
    match (prop, engine) {
        ("C12", _) => true,
        ("C06", "sched") => true,
        ("C13", "canon") => true,
        ("C20", "render") => true,
        ("C15", "depfile") => true,
        _ => false,
    }
}
