//! Registry: which jobs make up the check of each property, and dispatch of
//! a job to its engine.

use crate::worker::{Ctx, Tier};
use crate::*;
use serde_json::{json, Value};
use vcore::report::ShardResult;

pub struct CheckSpec {
    pub level: &'static str,
    pub rule: String,
    pub assumptions: Vec<String>,
    pub jobs: Vec<(String, u64)>,
    /// True when every job enumerates its finite space completely.
    pub exhaustive: bool,
    pub hang_secs: u64,
    pub shard_wall_secs: u64,
    pub max_restarts: u32,
    pub must_be_nonzero: Vec<&'static str>,
    pub bounds: Value,
}

impl CheckSpec {
    fn new(level: &'static str, tier: Tier) -> CheckSpec {
        CheckSpec {
            level,
            rule: String::new(),
            assumptions: Vec::new(),
            jobs: Vec::new(),
            exhaustive: true,
            hang_secs: 30,
            shard_wall_secs: tier.pick(240, 3000),
            max_restarts: 40,
            must_be_nonzero: Vec::new(),
            bounds: json!({}),
        }
    }
}

pub fn spec(id: &str, tier: Tier) -> Option<CheckSpec> {
    let spec = match id {
        "C13" => {
            let mut s = CheckSpec::new("exploration", tier);
            s.jobs = eng_canon::jobs(tier);
            s.jobs.extend(eng_load::jobs_nodeid(tier));
            s.rule = "every path string of length 1..=N over {a,b,.,/,\\} and over {é,€,.,/,\\}, plus 55..63-component paths with up to two special components; each compared byte-for-byte with a reference component walk and checked for idempotence, no lengthening, canonical form and unchanged location; plus all pairs of spellings of three locations through manifest / command line / depfile. Non-trivial = the canonical form differs from the input (or, for node identity, the two spellings differ).".into();
            s.assumptions = vec![
                "both '/' and '\\' are separators; a component keeps the separator that followed it".into(),
                "paths needing more than 60 stacked components are outside C13 (see C12)".into(),
            ];
            s.bounds = json!({"ascii_len": tier.pick(9, 12), "utf8_len": tier.pick(7, 10), "deep_components": "55..=63"});
            s
        }
        "C15" => {
            let mut s = CheckSpec::new("exploration", tier);
            s.jobs = eng_depfile::jobs(tier);
            s.jobs.extend(eng_hist::jobs("C15", tier));
            s.jobs.extend(eng_proc::jobs("C15", tier));
            s.rule = "abstract depfiles (1 entry x <=3 prerequisites, 2 entries x <=2, 3 entries x <=1, over 3 targets and 4 prerequisite spellings incl. Windows-style paths) under every formatting (1 entry x <=2 prerequisites) or every formatting with a bounded number of deviations from the canonical one (otherwise), read through the real read_depfile from a real file and compared with the listed prerequisites in order; every string up to length N over {a,space,:,\\,newline} and a NUL/CR/UTF-8 alphabet for totality and well-formed diagnostics; the real file path for all strings up to a smaller bound (error must name the depfile). Non-trivial = at least one prerequisite, or a rejected input.".into();
            s.assumptions = vec!["words are separated by at least one blank or a backslash-newline, as compilers write them".into()];
            s.bounds = json!({"format_deviations": tier.pick(2, 3), "string_len": tier.pick(9, 10), "odd_len": tier.pick(5, 6), "file_len": tier.pick(6, 7)});
            s
        }
        "C20" => {
            let mut s = CheckSpec::new("exploration", tier);
            s.jobs = eng_render::jobs(tier);
            s.jobs.extend(eng_proc::jobs("C20", tier));
            s.jobs.extend(eng_loom::jobs("C20", tier));
            s.rule = "task_message for every width 10..=300 x 15 elapsed times x messages placing a 1/2/3/4-byte character at every offset around the cut index with total lengths w-1,w,w+1,w+10,4w; every string of <= N characters over {a,é,€,😀} at widths 10..14; truncate at every alignment for max 0..=300; progress_bar for every count vector with entries 0..=B over the six states at 8 bar sizes (plus scaled vectors); whole frames through the real print_progress at forced widths 10..=300; and (loom:fancy) every interleaving, up to a preemption bound, of the real display thread with a main thread playing every well-formed sequence of <= L Progress calls (update, task started / output / finished with and without output, log) followed by drop, with the timeout of the display thread's timed wait modelled as an event: no deadlock, no panic, and every log line and finished-task block reaches the terminal exactly once, in call order. Non-trivial = the message had to be cut / at least two non-zero counts.".into();
            s.assumptions = vec![
                "loom:fancy runs on a scratch copy of the working tree in which only the std::sync / std::thread paths of progress_fancy.rs are rewritten to loom's; wait_timeout_while is supplied as std implements it (loop around a wait) with the timeout raised by a modelled timer thread; sleep is a yield".into(),
                "loom explores sequentially consistent interleavings up to the stated preemption bound (the code uses only Mutex/Condvar, no weaker atomics)".into(),
            ];
            s.bounds = json!({"short_len": tier.pick(6, 8), "bar_max_count": tier.pick(5, 7), "loom_ops_len": tier.pick(3, 4), "loom_preemption_bound": tier.pick(2, 3)});
            s.hang_secs = 120;
            s
        }
        "C10" => {
            let mut s = CheckSpec::new("exploration", tier);
            s.jobs = eng_load::jobs_c10(tier);
            s.rule = "abstract manifests from three families (B: one build statement with every presence pattern 0/1/2 paths of the five optional sections x 7 path rotations over paths needing `$ ` `$:` `$$` escapes and UTF-8; A: every placement of command/description/depfile/pool/deps/rspfile at rule or build level; S: every sequence of <= L statements over a 15-entry menu incl. include (of files that re-bind names of the includer and add new ones)/subninja/default/pool/comments/bindings), each under the canonical spelling and every spelling with <= D deviations at the spacing / continuation / `$v`-vs-`${v}` choice points (all pairs on a shape subset); the loaded graph dump is compared field by field with a reference loader and with the dump of the canonical spelling. Non-trivial = a non-canonical spelling, or any A/S manifest.".into();
            s.assumptions = vec![
                "comments only at column 0 between statements; trailing blanks only where Ninja's grammar and n2 both allow them (build/default lines)".into(),
                "a final newline ends every file (its absence is C12's business)".into(),
            ];
            s.bounds = json!({"deviations": tier.pick(1, 2), "sequence_len": tier.pick(2, 3)});
            s
        }
        "C11" => {
            let mut s = CheckSpec::new("exploration", tier);
            s.jobs = eng_load::jobs_c11(tier);
            s.rule = "11 binding slots (file x,y before; x redefined; rule command/description; build-block x,y,description; a variable path piece; file x after the statement; y defined at the end of the child file) each absent or one of 7 expressions {L,$x,$y,a$x,${y}b,$in,$out}; every assignment with <= K present slots, with the build statement in the main file, in an included file and in a subninja file, followed by a probe statement in the parent; graph dump compared with a reference evaluator implementing the stated lookup chain. Non-trivial = every case (each has at least a rule command evaluated through the chain).".into();
            s.assumptions = vec!["rule bindings referring to sibling rule bindings are outside the stated chain and not generated".into()];
            s.bounds = json!({"max_present_slots": tier.pick(4, 5)});
            s
        }
        "C14" => {
            let mut s = CheckSpec::new("exploration", tier);
            s.jobs = eng_load::jobs_c14(tier);
            s.jobs.extend(eng_sched::jobs("C14", tier));
            s.rule = "a first build statement with every list of 1..3 outputs over 9 spellings {x,./x,d/../x,y,./y,x/,z/x,z//x, and y reached through 61 directories and 61 `..`} at every explicit/implicit split, alone and followed by a second statement (1..2 outputs, same file / included file / subninja'd before) and a third (1 output); expected per reference loader: error citing both statements iff two statements produce one location, otherwise accepted with a warning iff an output repeats, outputs unique, explicit count consistent. Non-trivial = rejected manifests and manifests with a repeated output.".into();
            s.bounds = json!({"first_statement_outputs": tier.pick(3, 4), "second": 2, "third": 1});
            s
        }
        "C12" => {
            let mut s = CheckSpec::new("exploration", tier);
            s.jobs = eng_total::jobs(tier);
            s.jobs.extend(eng_proc::jobs("C12", tier));
            s.rule = "every sequence of <= N tokens over a 26-token Ninja alphabet (keywords, blanks, newline, : | || |@ $ ${ } = #, NUL, CR, TAB, a 2-byte character, $-newline) with and without final newline; every byte string of length <= B; every single-token deletion / duplication / replacement by 10 tokens and every truncation at a token boundary of ~3700 valid manifests (thorough: pairs); error-column families (lines of 1..70 and 4085..4097 bytes built from 1-4-byte characters with the error at the end, start and middle); empty expansions in every path position; 58..66-component paths; every token sequence <= M as the content of an included / subninja'd file on disk, including self- and mutual inclusion; every command-line target string <= T over {a . / \\ é}; every depfile string <= 9 over {a,space,:,\\,newline} and a NUL/CR/UTF-8 alphabet. Oracle: returns Ok, or Err whose text is a well-formed diagnostic (for syntax errors: `parse error: `, file:line with the line in range, an excerpt that is part of that line, a caret under the excerpt); no panic, abort or hang, with debug assertions, overflow checks and unsafe-precondition checks enabled. Non-trivial = rejected inputs and inputs that declare at least one step.".into();
            s.assumptions = vec![
                "reads outside the buffer that are not guarded by a debug assertion or unsafe-precondition check are not observable by this check".into(),
                "the `random mutation / raw bytes` tail of the quantifier is replaced by the systematic single/double mutations and short byte strings".into(),
            ];
            s.bounds = json!({"token_seq_len": tier.pick(5, 6), "byte_len": tier.pick(2, 3), "mutation_depth": tier.pick(1, 2), "include_seq_len": tier.pick(3, 4), "target_len": tier.pick(6, 7)});
            s.hang_secs = 8;
            s.max_restarts = 16;
            s
        }
        "C16" => {
            let mut s = CheckSpec::new("exploration", tier);
            s.jobs = eng_proc::jobs("C16", tier);
            s.jobs.extend(eng_loom::jobs("C16", tier));
            s.rule = "the real n2 binary with real /bin/sh commands that record their own argv (/proc/$$/cmdline), stdin, open descriptors and cwd: 14 command strings (quotes, $-expansion, redirections, ;, &&, subshells, globs, UTF-8) x 3 output placements (plain, nested directories with an rspfile, a directory with a blank); output volumes {0,1,4095,4096,4097,8191,8192,65535,65536,65537,200000} via stdout, stderr, alternating, and two concurrent commands; every exit code 0..=255 and every signal 1..=31 except the stop signals; -j in {1,2,4,8,16} with 2j commands printing a tagged 5000-byte block in pieces; and every output of <= N tokens over {note prefix, x, blank, LF, CR, y} through the real /showIncludes filter against a reference filter; and (loom) every interleaving of the real task::Runner collector - 2 tasks unbounded, 3 tasks at -j2/-j3 with a preemption bound - with real task threads running the real run_task around a scripted run_command (0-2 output chunks, hidden progress, failure, interruption, /showIncludes notes): every started task is returned by wait exactly once with exactly its bytes, its last-line updates arrive in order before its completion, Runner.running equals the number of live tasks; and every interleaving of the fancy console's display thread with the main thread: each finished task's block and each log line is printed exactly once, contiguously, in order. Non-trivial = every configuration that ran to its oracle; for loom jobs, distinct observed delivery orders.".into();
            s.assumptions = vec![
                "NOT decided: how the kernel interleaves real children and pipe wake-ups is not controllable with anything installed; each configuration is run once, and the oracles only state what must hold under every interleaving (contiguity, exactly-once, status mapping)".into(),
                "loom jobs run on a scratch copy of the working tree in which only the std::sync / std::thread paths of task.rs and progress_fancy.rs are rewritten to loom's; they cover the thread protocol between n2's own threads, not the kernel's scheduling of child processes".into(),
            ];
            s.exhaustive = true;
            s.hang_secs = 120;
            s
        }
        "C01" | "C04" | "C05" | "C06" | "C18" | "C19" => {
            let mut s = CheckSpec::new("model_checking", tier);
            s.jobs = eng_sched::jobs(id, tier);
            s.jobs.extend(eng_proc::jobs(id, tier));
            if id == "C19" {
                s.jobs.extend(eng_hist::jobs("C19", tier));
            }
            s.jobs.extend(eng_loom::jobs(id, tier));
            s.rule = format!("stateless exhaustive exploration of the real run::build under a gated, scripted executor: for every scenario of the families {:?} (abstract project -> generated manifest loaded by the real loader; initial state fresh or fully built then edited; per-step command outcome; -j/-k/targets) every sequence of choices (which running command finishes next; in which order newly ready dependents are visited) is executed and the property's trace monitor is evaluated against the abstract project and the reference model. States = explorer nodes (scenario, choice prefix), transitions = choice points taken, non-trivial = distinct traces with at least two command starts.", s.jobs.iter().map(|j| j.0.clone()).collect::<Vec<_>>());
            s.assumptions = vec![
                "commands are scripted: they write only their outputs/depfile, with mtimes from a logical clock".into(),
                if id == "C04" { "the sched jobs run exactly one thread at a time (cooperative gates); the real thread interleavings of task::Runner (slot accounting: running, can_start_more, tids) are explored separately by the loom:runner job on a scratch copy whose std sync/thread paths in task.rs are rewritten to loom's".into() } else { "exactly one thread runs at a time (cooperative gates); real thread interleavings of task::Runner are explored by the loom jobs of C04/C16, not here".into() },
                "bounds: 3-step graphs over all edge kinds exhaustively, 4-step graphs on reduced edge alphabets, curated 4-6 step shapes".into(),
            ];
            s.must_be_nonzero = vec!["executions_with_concurrency", "executions_with_choice"];
            s.hang_secs = if id == "C04" { 120 } else { 40 };
            s
        }
        "C02" | "C03" | "C08" | "C09" | "C17" => {
            let mut s = CheckSpec::new("model_checking", tier);
            s.jobs = eng_hist::jobs(id, tier);
            if id == "C08" {
                s.jobs.extend(eng_dbrt::jobs(tier));
            }
            if id == "C17" {
                s.jobs.extend(eng_sched::jobs("C17", tier));
            }
            if id == "C09" || id == "C02" || id == "C03" || id == "C08" {
                s.jobs.extend(eng_proc::jobs(id, tier));
            }
            s.rule = format!("exhaustive walk of the history tree of the templates {:?}: a history alternates edit sets (every single edit of the template's alphabet: touch each source/header, delete/touch each output and intermediate, delete a header, delete a declared source, change what a compiler reports, replace the manifest by each variant / let the generator write each variant; thorough: also all compatible pairs in the first round) and invocations (build default / each single target / every completion order at -j2 / build with each failing command, with -k1 / n2 killed after 1-2 completions leaving fresh garbage / restat) to depth {}; each invocation runs the real loader, db and scheduler on a real tree under the scripted executor, and is judged against the reference model: everything that ran was dirty, after success everything wanted is clean and carries the content tag a from-scratch evaluation gives, an identical repeat does nothing. States = history nodes, transitions = invocations, non-trivial = invocations judged without violation after a non-empty history step.", s.jobs.iter().map(|j| j.0.clone()).collect::<Vec<_>>(), tier.pick("2 (round two: builds and restat only), from the never-built and from the fully built tree", "2 (full alphabet in both rounds; plus all compatible edit pairs in round one) and 3 (single edits, reduced invocation alphabets), from the never-built and from the fully built tree"));
            s.assumptions = vec![
                "a content change comes with an mtime change (logical clock), nothing else writes the tree during a build, phony aliases are not used as dirtying inputs".into(),
                "commands are scripted; inside an invocation the completion order is the default one at -j1 except for the all-orders invocation of the first round".into(),
            ];
            s.hang_secs = 60;
            s
        }
        "C07" => {
            let mut s = CheckSpec::new("fault_enumeration", tier);
            s.jobs = eng_crash::jobs(tier);
            s.rule = "for each of 8 histories (first build creating the log; build-touch-rebuild; build, renumbering manifest edit, rebuild; a build that adds path records for new discovered dependencies; three builds with superseded records; -j1 and -j2) the last build is re-run once per (log write index, number of bytes of that write that reached the file, 0..=len), the write persists exactly that prefix and the invocation dies; then a fault-free invocation must load the log (through the facade: every step has a loaded record iff its record was persisted completely, with the dependency list that was written), run exactly the steps the reference model calls dirty given the surviving records, succeed with clean-build contents, and a third invocation must do nothing; thorough: additionally a second crash at every write of the recovery invocation (boundary byte counts). Non-trivial = crash points after which recovery was judged completely.".into();
            s.assumptions = vec![
                "a crash loses the tail of the write in progress and nothing else (the log is appended with write(2), earlier writes are intact); fsync-less reordering across writes is outside the model".into(),
                "the process death is simulated by unwinding out of the invocation right after the partial write".into(),
            ];
            s.bounds = json!({"crash_depth": tier.pick(1, 2)});
            s.must_be_nonzero = vec!["db_writes_in_history"];
            s
        }
        _ => return None,
    };
    let mut spec = spec;
    // Jobs that run the real binary wait up to 90 s for it.
    if spec.jobs.iter().any(|j| j.0.starts_with("proc:")) {
        spec.hang_secs = spec.hang_secs.max(120);
    }
    Some(spec)
}

pub fn run_job(ctx: &mut Ctx) -> ShardResult {
    crate::worker::install_panic_hook();
    let engine = ctx.job.split(':').next().unwrap_or("").to_string();
    match engine.as_str() {
        "canon" => eng_canon::run(ctx),
        "load" => eng_load::run(ctx),
        "depfile" => eng_depfile::run(ctx),
        "render" => eng_render::run(ctx),
        "total" => eng_total::run(ctx),
        "dbrt" => eng_dbrt::run(ctx),
        "sched" => eng_sched::run(ctx),
        "hist" => eng_hist::run(ctx),
        "crash" => eng_crash::run(ctx),
        "proc" => eng_proc::run(ctx),
        "loom" => eng_loom::run(ctx),
        other => panic!("unknown engine {:?}", other),
    }
}

/// Reconstructs a replayable case from what a dead worker left in its marker.
pub fn case_from_marker(_prop: &str, job: &str, index: u64, bytes: &[u8]) -> Value {
    let engine = job.split(':').next().unwrap_or("");
    match engine {
        "canon" => eng_canon::case_from_marker(job, index, bytes),
        "depfile" => eng_depfile::case_from_marker(job, bytes),
        "total" => eng_total::case_from_marker(job, bytes),
        "sched" => eng_sched::case_from_marker(job, bytes),
        "hist" => eng_hist::case_from_marker(job, bytes),
        "loom" => eng_loom::case_from_marker(job, bytes),
        _ => json!({"job": job, "index": index, "marker": String::from_utf8_lossy(bytes)}),
    }
}

/// Whether a worker abort (signal, non-unwinding panic) or hang while running
/// a case of this job counts against the property (true) or is a machinery
/// failure (false).
pub fn abort_is_violation(prop: &str, job: &str) -> bool {
    let engine = job.split(':').next().unwrap_or("");
    match (prop, engine) {
        ("C12", _) => true,
        ("C06", "sched") => true,
        ("C13", "canon") => true,
        ("C20", "render") => true,
        ("C15", "depfile") => true,
        ("C16", "proc") => true,
        _ => false,
    }
}
