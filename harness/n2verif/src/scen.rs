//! Scenario families of the `sched` engine: abstract projects with initial
//! state, command behaviour and options.  Every family is a deterministic,
//! index-addressable list so that violations can be replayed by (family,
//! index, choice list).

use crate::sim::{Generator, Outcome};
use std::collections::BTreeMap;
use vcore::project::{EdgeKind, Project, Step};

#[derive(Debug, Clone, PartialEq, Eq)]
pub enum Edit {
    /// New content and mtime.
    Touch(String),
    /// New mtime, same content.
    TouchMtime(String),
    Remove(String),
}

#[derive(Debug, Clone)]
pub struct Scenario {
    pub project: Project,
    pub manifest_name: String,
    /// Build everything once (all commands succeed) before applying edits.
    pub prebuilt: bool,
    pub edits: Vec<Edit>,
    pub outcomes: BTreeMap<String, Outcome>,
    pub j: usize,
    pub k: Option<usize>,
    pub targets: Vec<String>,
    pub restat_like: Vec<String>,
    pub reports: BTreeMap<String, Vec<String>>,
    /// Installed after the prebuild (the prebuild regenerates identically).
    pub generators: BTreeMap<String, Generator>,
    pub explore_order: bool,
    /// Run a second, all-success invocation afterwards (C05: failed steps
    /// must not have been recorded).
    pub followup: bool,
    pub adopt: bool,
    pub raw_depfile: BTreeMap<String, String>,
    /// How the manifest is named on the command line (-f), when not by its
    /// canonical name.
    pub f_spelling: Option<String>,
    /// Explore only the default completion order (for wide scenarios).
    pub single_order: bool,
    pub note: String,
}

impl Scenario {
    pub fn new(project: Project) -> Scenario {
        Scenario {
            project,
            manifest_name: "build.ninja".into(),
            prebuilt: false,
            edits: Vec::new(),
            outcomes: BTreeMap::new(),
            j: 2,
            k: None,
            targets: Vec::new(),
            restat_like: Vec::new(),
            reports: BTreeMap::new(),
            generators: BTreeMap::new(),
            explore_order: true,
            followup: false,
            adopt: false,
            raw_depfile: BTreeMap::new(),
            f_spelling: None,
            single_order: false,
            note: String::new(),
        }
    }

    pub fn describe(&self) -> serde_json::Value {
        serde_json::json!({
            "manifest": self.project.manifest_text(),
            "prebuilt": self.prebuilt,
            "edits": format!("{:?}", self.edits),
            "outcomes": format!("{:?}", self.outcomes),
            "j": self.j,
            "k": self.k,
            "targets": self.targets,
            "restat_like": self.restat_like,
            "reports": format!("{:?}", self.reports),
            "generator_writes": self.generators.iter().map(|(k, g)| (k.clone(), g.next.manifest_text())).collect::<BTreeMap<_, _>>(),
            "adopt": self.adopt,
            "note": self.note,
        })
    }
}

/// Edge choice between an earlier and a later step.
pub const EDGE_OPTIONS: [Option<EdgeKind>; 5] = [
    None,
    Some(EdgeKind::Explicit),
    Some(EdgeKind::Implicit),
    Some(EdgeKind::OrderOnly),
    Some(EdgeKind::Validation),
];

fn step(i: usize, two_outs: bool) -> Step {
    let mut s = Step {
        outs: vec![format!("o{}", i)],
        cmdline: format!("S{}", i),
        ins: vec![(EdgeKind::Explicit, format!("s{}", i))],
        ..Default::default()
    };
    if two_outs {
        s.outs.push(format!("o{}b", i));
    }
    // Display-only bindings: they must not influence anything but the console.
    s.hide_success = i == 1;
    s.hide_progress = i == 2;
    s
}

/// n steps; `edges[(i,j)]` (i<j) gives the edge from step i's output to step j.
/// Step 0 has two outputs; consumers alternate between them.
pub fn dag(n: usize, edges: &[Option<EdgeKind>], phony: Option<usize>, reverse_order: bool) -> Project {
    let mut steps: Vec<Step> = (0..n).map(|i| step(i, i == 0)).collect();
    let mut e = 0;
    let mut toggle = 0;
    for i in 0..n {
        for j in (i + 1)..n {
            if let Some(k) = edges[e] {
                let out = if i == 0 {
                    toggle += 1;
                    if toggle % 2 == 1 {
                        "o0".to_string()
                    } else {
                        "o0b".to_string()
                    }
                } else {
                    format!("o{}", i)
                };
                steps[j].ins.push((k, out));
            }
            e += 1;
        }
    }
    if let Some(p) = phony {
        steps[p].phony = true;
        steps[p].cmdline = String::new();
    }
    if reverse_order {
        steps.reverse();
    }
    Project {
        steps,
        ..Default::default()
    }
}

pub fn pair_count(n: usize) -> usize {
    n * (n - 1) / 2
}

fn decode_edges(mut code: usize, pairs: usize, options: &[Option<EdgeKind>]) -> Vec<Option<EdgeKind>> {
    let mut v = Vec::new();
    for _ in 0..pairs {
        v.push(options[code % options.len()]);
        code /= options.len();
    }
    v
}

fn all_cmdlines(p: &Project) -> Vec<String> {
    p.steps.iter().filter(|s| !s.phony).map(|s| s.cmdline.clone()).collect()
}

/// G: fresh trees, every edge assignment, optional phony step, both statement
/// orders, -j 1..3.
pub fn family_g(n: usize, options: &[Option<EdgeKind>]) -> Vec<Scenario> {
    let pairs = pair_count(n);
    let mut out = Vec::new();
    for code in 0..options.len().pow(pairs as u32) {
        let edges = decode_edges(code, pairs, options);
        for phony in std::iter::once(None).chain((0..n).map(Some)) {
            for rev in [false, true] {
                for j in 1..=3 {
                    let mut s = Scenario::new(dag(n, &edges, phony, rev));
                    s.j = j;
                    s.note = format!("G{} edges={:?} phony={:?} rev={} j={}", n, edges, phony, rev, j);
                    out.push(s);
                }
            }
        }
    }
    out
}

/// Gn: like G, but the steps have no source input of their own: every input
/// of a step is another step's output (a step with exactly one ordering input
/// exists only here), and steps without any edge have no inputs at all.
pub fn family_g_nosrc(n: usize, options: &[Option<EdgeKind>]) -> Vec<Scenario> {
    let mut out = family_g(n, options);
    for s in out.iter_mut() {
        for st in s.project.steps.iter_mut() {
            st.ins.retain(|(_, f)| !f.starts_with('s'));
        }
        s.note = format!("{} nosrc", s.note);
    }
    out
}

/// PX: more steps of one bounded pool than its depth, next to steps of the
/// default pool that compete for the -j slots.
pub fn family_px() -> Vec<Scenario> {
    let mut out = Vec::new();
    for depth in [1usize, 2] {
        for pooled in [depth + 1, depth + 2] {
            for plain in [1usize, 2] {
                for j in [depth + 1, depth + 2] {
                    for order in 0..3usize {
                        for tail in [false, true] {
                            let mut steps = Vec::new();
                            let mk = |name: String, pool: bool| Step {
                                outs: vec![name.clone()],
                                cmdline: name.to_uppercase(),
                                ins: vec![(EdgeKind::Explicit, format!("src_{}", name))],
                                pool: if pool { Some("bounded".to_string()) } else { None },
                                ..Default::default()
                            };
                            let ps: Vec<Step> = (0..pooled).map(|i| mk(format!("p{}", i), true)).collect();
                            let ds: Vec<Step> = (0..plain).map(|i| mk(format!("d{}", i), false)).collect();
                            match order {
                                0 => {
                                    steps.extend(ds.clone());
                                    steps.extend(ps.clone());
                                }
                                1 => {
                                    steps.extend(ps.clone());
                                    steps.extend(ds.clone());
                                }
                                _ => {
                                    // interleaved
                                    let mut a = ps.clone().into_iter();
                                    let mut b = ds.clone().into_iter();
                                    loop {
                                        let x = a.next();
                                        let y = b.next();
                                        if x.is_none() && y.is_none() {
                                            break;
                                        }
                                        steps.extend(x);
                                        steps.extend(y);
                                    }
                                }
                            }
                            if tail {
                                // a default-pool step that becomes ready when the last plain step finishes
                                let mut t = mk("dtail".to_string(), false);
                                t.ins.push((EdgeKind::Explicit, format!("d{}", plain - 1)));
                                steps.push(t);
                            }
                            let p = Project {
                                pools: vec![("bounded".into(), depth)],
                                steps,
                                ..Default::default()
                            };
                            let mut s = Scenario::new(p);
                            s.j = j;
                            s.note = format!("PX depth={} pooled={} plain={} j={} order={} tail={}", depth, pooled, plain, j, order, tail);
                            out.push(s);
                        }
                    }
                }
            }
        }
    }
    out
}

/// RF: the manifest has a generator step but is up to date (or is
/// regenerated identically); user commands fail under every -k.
pub fn family_rf() -> Vec<Scenario> {
    let mut out = Vec::new();
    for shared in [0usize, 1] {
        for touch in [false, true] {
            for fail in [vec!["A"], vec!["C"], vec!["A", "C"]] {
                for k in [None, Some(1), Some(2), Some(3)] {
                    for j in [1usize, 3] {
                        let base = regen_project("build.ninja", shared, 0);
                        let mut s = Scenario::new(base.clone());
                        s.prebuilt = true;
                        if touch {
                            s.edits.push(Edit::Touch("gen.in".into()));
                        }
                        s.edits.push(Edit::Touch("sa".into()));
                        s.edits.push(Edit::Touch("sc".into()));
                        s.generators.insert(
                            "build.ninja".into(),
                            Generator {
                                manifest_name: "build.ninja".into(),
                                next: base.clone(),
                            },
                        );
                        for f in &fail {
                            s.outcomes.insert(f.to_string(), Outcome::Fail);
                        }
                        s.k = k;
                        s.j = j;
                        s.targets = vec!["b".into(), "c".into()];
                        s.note = format!("RF shared={} touch_gen={} fail={:?} k={:?} j={}", shared, touch, fail, k, j);
                        out.push(s);
                    }
                }
            }
        }
    }
    out
}

/// RD: the generator writes a text in which a second statement produces an
/// output that already has a producer (whole manifest, or only the included
/// fragment while the main file stays untouched): the reloaded manifest must
/// be rejected and nothing more may run.
pub fn family_rd() -> Vec<Scenario> {
    let mut out = Vec::new();
    for shared in [0usize, 4] {
        for dup in ["a", "./c", "x/../b"] {
            for j in [1usize, 3] {
                let base = regen_project("build.ninja", shared, 0);
                let mut next = base.clone();
                next.fragment_preamble = format!("rule dupr\n  command = DUP\nbuild {}: dupr\n", dup);
                let mut s = Scenario::new(base.clone());
                s.prebuilt = true;
                s.edits.push(Edit::Touch("gen.in".into()));
                s.edits.push(Edit::Touch("sa".into()));
                let gen_file = match &base.fragment {
                    Some((f, _)) => f.clone(),
                    None => "build.ninja".to_string(),
                };
                s.generators.insert(
                    gen_file.clone(),
                    Generator {
                        manifest_name: gen_file,
                        next,
                    },
                );
                s.j = j;
                s.note = format!("RD shared={} duplicate producer of {} after regeneration j={}", shared, dup, j);
                out.push(s);
            }
        }
    }
    out
}

/// W: many independent steps running at once (more than the display lists).
pub fn family_w() -> Vec<Scenario> {
    let mut out = Vec::new();
    for (n, j) in [(10usize, 10usize), (12, 9), (9, 16)] {
        let steps: Vec<Step> = (0..n)
            .map(|i| Step {
                outs: vec![format!("w{}", i)],
                cmdline: format!("W{}", i),
                ins: vec![(EdgeKind::Explicit, format!("src_w{}", i))],
                ..Default::default()
            })
            .collect();
        let mut s = Scenario::new(Project {
            steps,
            ..Default::default()
        });
        s.j = j;
        // one order only: the width is the point, not the order
        s.explore_order = false;
        s.single_order = true;
        s.note = format!("W {} independent steps at -j{}", n, j);
        out.push(s);
    }
    out
}

/// PV: steps of a bounded pool that have validation edges to default-pool
/// steps which may fail while the pooled steps are running or queued.
pub fn family_pv() -> Vec<Scenario> {
    let mut out = Vec::new();
    let mk = |name: &str, pool: bool, ins: Vec<(EdgeKind, String)>| Step {
        outs: vec![name.to_string()],
        cmdline: name.to_uppercase(),
        ins: {
            let mut v = vec![(EdgeKind::Explicit, format!("src_{}", name))];
            v.extend(ins);
            v
        },
        pool: if pool { Some("bounded".to_string()) } else { None },
        ..Default::default()
    };
    for depth in [1usize, 2] {
        for pooled in [depth + 1, depth + 2] {
            for validated in 0..2usize {
                for fail_v in [true, false] {
                    for fail_x in [false, true] {
                        for k in [None, Some(2)] {
                            let mut steps = vec![mk("v", false, vec![])];
                            for i in 0..pooled {
                                let ins = if i == validated { vec![(EdgeKind::Validation, "v".to_string())] } else { vec![] };
                                steps.push(mk(&format!("p{}", i), true, ins));
                            }
                            // something downstream of the validated step
                            steps.push(mk("after", false, vec![(EdgeKind::Explicit, format!("p{}", validated))]));
                            let p = Project {
                                pools: vec![("bounded".into(), depth)],
                                steps,
                                ..Default::default()
                            };
                            let mut s = Scenario::new(p);
                            s.j = depth + 2;
                            s.k = k;
                            if fail_v {
                                s.outcomes.insert("V".into(), Outcome::Fail);
                            }
                            if fail_x {
                                s.outcomes.insert(format!("P{}", validated), Outcome::Fail);
                            }
                            s.targets = vec!["after".into(), format!("p{}", pooled - 1), "p0".into(), "p1".into()];
                            s.note = format!("PV depth={} pooled={} validated=p{} fail_v={} fail_x={} k={:?}", depth, pooled, validated, fail_v, fail_x, k);
                            out.push(s);
                        }
                    }
                }
            }
        }
    }
    out
}

/// PXd: PX in which the first default-pool step writes a depfile n2 cannot
/// parse: its command succeeds, n2 turns the step into a failure after the
/// process is gone (a second way out of the Running state).
pub fn family_pxd() -> Vec<Scenario> {
    let mut out = Vec::new();
    for mut s in family_px() {
        let Some(st) = s.project.steps.iter_mut().find(|st| st.outs[0] == "d0") else { continue };
        st.depfile = Some("d0.d".into());
        s.raw_depfile.insert("d0".into(), "garbage text without a colon\n".into());
        s.note = format!("{} bad-depfile", s.note);
        out.push(s);
    }
    out
}

/// D: prebuilt trees, every edit vector (per source: none / touch / mtime
/// only; per output: keep / remove one), with and without restat-like
/// commands.
pub fn family_d(n: usize, options: &[Option<EdgeKind>], with_pool: bool) -> Vec<Scenario> {
    let pairs = pair_count(n);
    let mut out = Vec::new();
    for code in 0..options.len().pow(pairs as u32) {
        let edges = decode_edges(code, pairs, options);
        for ev in 0..3usize.pow(n as u32) {
            for restat in [false, true] {
                for removed in std::iter::once(None).chain((0..n).map(Some)) {
                    if removed.is_some() && (restat || ev % 2 == 1) {
                        continue; // keep the product moderate
                    }
                    let mut p = dag(n, &edges, None, false);
                    if with_pool {
                        p.pools.push(("p1".into(), 1));
                        for st in p.steps.iter_mut() {
                            st.pool = Some("p1".into());
                        }
                        p.steps[0].pool = None;
                    }
                    let mut s = Scenario::new(p);
                    s.prebuilt = true;
                    let mut x = ev;
                    for i in 0..n {
                        match x % 3 {
                            1 => s.edits.push(Edit::Touch(format!("s{}", i))),
                            2 => s.edits.push(Edit::TouchMtime(format!("s{}", i))),
                            _ => {}
                        }
                        x /= 3;
                    }
                    if let Some(r) = removed {
                        s.edits.push(Edit::Remove(format!("o{}", r)));
                    }
                    if restat {
                        s.restat_like = (0..n).map(|i| format!("o{}", i)).collect();
                    }
                    s.j = if with_pool { 3 } else { 2 };
                    s.note = format!("D{} edges={:?} edits={:?} restat={} pool={}", n, edges, s.edits, restat, with_pool);
                    out.push(s);
                }
            }
        }
    }
    out
}

/// F: every non-empty fail subset x -k x failure kind x -j.
pub fn family_f(n: usize, options: &[Option<EdgeKind>], ks: &[Option<usize>], kinds: &[Outcome], followup: bool) -> Vec<Scenario> {
    let pairs = pair_count(n);
    let mut out = Vec::new();
    for code in 0..options.len().pow(pairs as u32) {
        let edges = decode_edges(code, pairs, options);
        let p = dag(n, &edges, None, false);
        let cmds = all_cmdlines(&p);
        for subset in 1..(1usize << n) {
            for &k in ks {
                for &kind in kinds {
                    for j in 1..=3 {
                        let mut s = Scenario::new(p.clone());
                        for (i, c) in cmds.iter().enumerate() {
                            if subset & (1 << i) != 0 {
                                s.outcomes.insert(c.clone(), kind);
                            }
                        }
                        s.k = k;
                        s.j = j;
                        s.followup = followup;
                        s.note = format!("F{} edges={:?} fail={:b} k={:?} kind={:?} j={}", n, edges, subset, k, kind, j);
                        out.push(s);
                    }
                }
            }
        }
    }
    out
}

pub const POOL_OPTIONS: [Option<&str>; 6] = [None, Some("p1"), Some("p2"), Some("p0"), Some("console"), Some("undeclared")];

/// P: pool assignments over small shapes, with at most one failing step.
pub fn family_p(n: usize, js: &[usize]) -> Vec<Scenario> {
    let mut out = Vec::new();
    // shapes: 0 = all independent, 1 = last step consumes all others,
    // 2 = chain of the first two, rest independent
    for shape in 0..3 {
        for code in 0..POOL_OPTIONS.len().pow(n as u32) {
            let mut edges = vec![None; pair_count(n)];
            let mut e = 0;
            for i in 0..n {
                for j in (i + 1)..n {
                    let on = match shape {
                        1 => j == n - 1,
                        2 => i == 0 && j == 1,
                        _ => false,
                    };
                    if on {
                        edges[e] = Some(EdgeKind::Explicit);
                    }
                    e += 1;
                }
            }
            let mut p = dag(n, &edges, None, false);
            let mut x = code;
            for st in p.steps.iter_mut() {
                st.pool = POOL_OPTIONS[x % POOL_OPTIONS.len()].map(|s| s.to_string());
                x /= POOL_OPTIONS.len();
            }
            // Only the pools in use are declared (so that e.g. a manifest whose
            // only bounded pool is the built-in console pool occurs).
            for (name, depth) in [("p1", 1usize), ("p2", 2), ("p0", 0)] {
                if p.steps.iter().any(|s| s.pool.as_deref() == Some(name)) {
                    p.pools.push((name.to_string(), depth));
                }
            }
            let cmds = all_cmdlines(&p);
            for &j in js {
                for fail in std::iter::once(None).chain((0..n).map(Some)) {
                    let mut s = Scenario::new(p.clone());
                    s.j = j;
                    if let Some(f) = fail {
                        s.outcomes.insert(cmds[f].clone(), Outcome::Fail);
                    }
                    s.note = format!("P{} shape={} pools={:?} j={} fail={:?}", n, shape, p.steps.iter().map(|s| s.pool.clone()).collect::<Vec<_>>(), j, fail);
                    out.push(s);
                }
            }
        }
    }
    out
}

/// V: graphs with a back edge (later step's output used by an earlier step).
pub fn family_v(n: usize) -> Vec<Scenario> {
    let mut out = Vec::new();
    let fwd_opts = [None, Some(EdgeKind::Explicit), Some(EdgeKind::OrderOnly), Some(EdgeKind::Validation)];
    let pairs = pair_count(n);
    for code in 0..fwd_opts.len().pow(pairs as u32) {
        let edges = decode_edges(code, pairs, &fwd_opts);
        for from in 0..n {
            for to in 0..=from {
                // back edge: output of step `from` is an input of step `to`
                // (to == from: a step depending on its own output)
                for kind in EdgeKind::ALL {
                    let mut p = dag(n, &edges, None, false);
                    p.steps[to].ins.push((kind, format!("o{}", from)));
                    for target in std::iter::once(None).chain((0..n).map(Some)) {
                        let mut s = Scenario::new(p.clone());
                        s.j = 2;
                        if let Some(t) = target {
                            s.targets = vec![format!("o{}", t)];
                        }
                        s.note = format!("V{} edges={:?} back={}->{} {:?} target={:?}", n, edges, from, to, kind, target);
                        out.push(s);
                    }
                }
            }
        }
    }
    out
}

/// T: target subsets in several spellings, with and without defaults.
pub fn family_t(n: usize, options: &[Option<EdgeKind>]) -> Vec<Scenario> {
    let pairs = pair_count(n);
    let mut out = Vec::new();
    let spell = |i: usize, style: usize| -> String {
        match style {
            0 => format!("o{}", i),
            1 => format!("./o{}", i),
            _ => format!("x/../o{}", i),
        }
    };
    for code in 0..options.len().pow(pairs as u32) {
        let edges = decode_edges(code, pairs, options);
        for subset in 0..(1usize << n) {
            for defaults in 0..3usize {
                for style in 0..3usize {
                    if subset == 0 && style > 0 {
                        continue;
                    }
                    let mut p = dag(n, &edges, None, false);
                    match defaults {
                        1 => p.defaults = vec!["o1".into()],
                        2 => p.defaults = vec!["o0b".into(), format!("o{}", n - 1)],
                        _ => {}
                    }
                    let mut s = Scenario::new(p);
                    for i in 0..n {
                        if subset & (1 << i) != 0 {
                            s.targets.push(spell(i, style));
                        }
                    }
                    s.j = 2;
                    s.note = format!("T{} edges={:?} targets={:?} defaults={}", n, edges, s.targets, defaults);
                    out.push(s);
                }
            }
        }
        // The manifest itself as the only target (it is not generated here):
        // nothing is wanted.
        for d in 0..2usize {
            let mut p = dag(n, &edges, None, false);
            if d == 1 {
                p.defaults = vec!["o1".into()];
            }
            let mut s = Scenario::new(p);
            s.targets = vec!["./build.ninja".into()];
            s.note = format!("T{} edges={:?} only target is the manifest, defaults={}", n, edges, d);
            out.push(s);
        }
        // Unknown names: never mentioned, and mentioned only as a source.
        for (bad, known_source) in [("nosuch", false), ("o9", false), ("s0", true)] {
            let mut s = Scenario::new(dag(n, &edges, None, false));
            s.targets = vec!["o1".into(), bad.into()];
            s.note = format!("T{} edges={:?} unknown target {} (source: {})", n, edges, bad, known_source);
            out.push(s);
        }
    }
    out
}

/// R: the manifest is produced by a generator step; the generator input is
/// touched and the generator writes a variant.
pub fn family_r() -> Vec<Scenario> {
    let mut out = Vec::new();
    // base: cfg -> build.ninja generator; a -> b user chain; c independent;
    // `shared` decides how the generator's extra input relates to user steps.
    for shared in [0usize, 1, 2, 3, 4, 6] {
        for (manifest_name, f_spelling) in [("build.ninja", None), ("alt.ninja", None), ("alt.ninja", Some("./alt.ninja")), ("alt.ninja", Some(".//alt.ninja"))] {
            if f_spelling.is_some() && shared > 1 {
                continue;
            }
            let base = regen_project(manifest_name, shared, 0);
            for variant in 0..11usize {
                for targets in [vec![], vec!["b".to_string()], vec!["c".to_string()], vec!["newt".to_string()], vec!["a".to_string(), manifest_name.to_string()], vec![manifest_name.to_string()]] {
                    for touch in [true, false] {
                        for j in [1usize, 3] {
                            let next = regen_project(manifest_name, shared, variant);
                            let mut s = Scenario::new(base.clone());
                            s.manifest_name = manifest_name.to_string();
                            s.prebuilt = true;
                            if touch {
                                s.edits.push(Edit::Touch("gen.in".into()));
                            }
                            // also dirty two independent user steps of one pool
                            s.edits.push(Edit::Touch("sa".into()));
                            s.edits.push(Edit::Touch("sc".into()));
                            // Split manifests: the generator writes the fragment.
                            let gen_file = match &base.fragment {
                                Some((f, _)) => f.clone(),
                                None => manifest_name.to_string(),
                            };
                            s.generators.insert(
                                gen_file.clone(),
                                Generator {
                                    manifest_name: gen_file,
                                    next,
                                },
                            );
                            if shared == 5 {
                                // the top-level file has its own generator too
                                s.generators.insert(
                                    manifest_name.to_string(),
                                    Generator {
                                        manifest_name: manifest_name.to_string(),
                                        next: regen_project(manifest_name, shared, variant),
                                    },
                                );
                            }
                            if variant == 8 {
                                s.outcomes.insert("GEN".into(), Outcome::Fail);
                            }
                            s.targets = targets.clone();
                            s.j = j;
                            s.f_spelling = f_spelling.map(|x: &str| x.to_string());
                            s.note = format!("R shared={} manifest={} (-f {:?}) variant={} targets={:?} touch_gen={} j={}", shared, manifest_name, f_spelling, variant, targets, touch, j);
                            out.push(s);
                        }
                    }
                }
            }
        }
    }
    out
}

/// Variants: 0 identical, 1 add step newt, 2 remove step c, 3 change command
/// of a, 4 rewire b to depend on c too, 5 lower pool depth, 6 rename target
/// b -> newt, 7 add a pool and put c in it, 8 identical (generator fails),
/// 9 a new step is inserted before the others (files are renumbered),
/// 10 the default target changes from b to c.
/// `shared` 0..=3: how the generator relates to user steps; 4, 5: the
/// manifest is split: the main file is `build <manifest>: phony frag.ninja`
/// (4) or a generator ordered after the fragment (5) and includes
/// frag.ninja, which the generator step writes.
pub fn regen_project(manifest_name: &str, shared: usize, variant: usize) -> Project {
    let mut p = Project::default();
    p.defaults = vec![match variant {
        6 => "newt".to_string(),
        10 => "c".to_string(),
        _ => "b".to_string(),
    }];
    if shared == 4 || shared == 5 {
        // Main file: the manifest target and the fragment's generator.
        let frag = "frag.ninja";
        if shared == 4 {
            p.steps.push(Step {
                outs: vec![manifest_name.to_string()],
                phony: true,
                ins: vec![(EdgeKind::Explicit, frag.to_string())],
                ..Default::default()
            });
        } else {
            p.steps.push(Step {
                outs: vec![manifest_name.to_string()],
                cmdline: "TOP".into(),
                ins: vec![(EdgeKind::Explicit, "top.in".into()), (EdgeKind::OrderOnly, frag.to_string())],
                ..Default::default()
            });
        }
        p.steps.push(Step {
            outs: vec![frag.to_string()],
            cmdline: "GEN".into(),
            ins: vec![(EdgeKind::Explicit, "gen.in".into())],
            ..Default::default()
        });
        p.fragment = Some((frag.to_string(), 2));
        p.pools.push(("link".into(), if variant == 5 { 1 } else { 3 }));
        user_steps(&mut p, variant);
        return p;
    }
    p.pools.push(("link".into(), if variant == 5 { 1 } else { 3 }));
    let mut gen = Step {
        outs: vec![manifest_name.to_string()],
        cmdline: "GEN".into(),
        ins: vec![(EdgeKind::Explicit, "gen.in".into())],
        ..Default::default()
    };
    // How the generator relates to user steps.
    match shared {
        1 | 6 => gen.ins.push((EdgeKind::Implicit, "cfg".into())), // generated config
        2 => gen.ins.push((EdgeKind::Explicit, "sa".into())),  // shares a source with step a
        3 => gen.ins.push((EdgeKind::OrderOnly, "a".into())),  // ordered after user step a
        _ => {}
    }
    p.steps.push(gen);
    if shared == 1 || shared == 6 {
        p.steps.push(Step {
            outs: vec!["cfg".into()],
            cmdline: "CFG".into(),
            ins: vec![(EdgeKind::Explicit, "cfg.in".into())],
            ..Default::default()
        });
    }
    user_steps(&mut p, variant);
    if shared == 6 {
        // The generated config is also an input of user step a, and b reaches
        // a twice (directly and through c): b: a c, c: a.
        for st in p.steps.iter_mut() {
            match st.outs[0].as_str() {
                "a" => st.ins.push((EdgeKind::Implicit, "cfg".into())),
                "c" => st.ins.push((EdgeKind::Explicit, "a".into())),
                "b" | "newt" if st.cmdline == "B" => {
                    if !st.ins.iter().any(|(_, f)| f == "c") && p_has_c(variant) {
                        st.ins.push((EdgeKind::Explicit, "c".into()));
                    }
                }
                _ => {}
            }
        }
    }
    p
}

fn p_has_c(variant: usize) -> bool {
    variant != 2
}

fn user_steps(p: &mut Project, variant: usize) {
    if variant == 9 {
        p.steps.push(Step {
            outs: vec!["pre".into()],
            cmdline: "PRE".into(),
            ins: vec![(EdgeKind::Explicit, "spre".into())],
            ..Default::default()
        });
    }
    p.steps.push(Step {
        outs: vec!["a".into()],
        cmdline: if variant == 3 { "A v2".into() } else { "A".into() },
        ins: vec![(EdgeKind::Explicit, "sa".into())],
        pool: Some("link".into()),
        ..Default::default()
    });
    let mut b = Step {
        outs: vec![if variant == 6 { "newt".into() } else { "b".into() }],
        cmdline: "B".into(),
        ins: vec![(EdgeKind::Explicit, "a".into())],
        pool: Some("link".into()),
        ..Default::default()
    };
    if variant == 4 {
        b.ins.push((EdgeKind::Explicit, "c".into()));
    }
    p.steps.push(b);
    if variant != 2 {
        p.steps.push(Step {
            outs: vec!["c".into()],
            cmdline: "C".into(),
            ins: vec![(EdgeKind::Explicit, "sc".into())],
            pool: Some(if variant == 7 { "extra".into() } else { "link".into() }),
            ..Default::default()
        });
    }
    if variant == 7 {
        p.pools.push(("extra".into(), 1));
    }
    if variant == 1 {
        p.steps.push(Step {
            outs: vec!["newt".into()],
            cmdline: "NEWT".into(),
            ins: vec![(EdgeKind::Explicit, "a".into())],
            pool: Some("link".into()),
            ..Default::default()
        });
    }
}

/// S: curated larger shapes.
pub fn family_s() -> Vec<Scenario> {
    let mut out = Vec::new();
    let e = |f: &str| (EdgeKind::Explicit, f.to_string());
    let mk = |name: &str, ins: Vec<(EdgeKind, String)>, pool: Option<&str>| Step {
        outs: vec![name.to_string()],
        cmdline: name.to_uppercase(),
        ins: {
            let mut v = vec![e(&format!("src_{}", name))];
            v.extend(ins);
            v
        },
        pool: pool.map(|s| s.to_string()),
        ..Default::default()
    };
    // 1. diamond with tail: a -> (b, c) -> d -> t
    let diamond = Project {
        steps: vec![
            mk("a", vec![], None),
            mk("b", vec![e("a")], None),
            mk("c", vec![e("a")], None),
            mk("d", vec![e("b"), e("c")], None),
            mk("t", vec![e("d")], None),
        ],
        ..Default::default()
    };
    // 2. multi-output producer feeding consumers in a listed order that
    //    repeats a consumer: x uses both outputs, y uses the first.
    let multi = Project {
        steps: vec![
            Step {
                outs: vec!["p1".into(), "p2".into()],
                cmdline: "P".into(),
                ins: vec![e("src_p")],
                ..Default::default()
            },
            mk("x", vec![e("p1"), e("p2")], None),
            mk("y", vec![e("p1")], None),
            mk("z", vec![e("x"), e("y")], None),
        ],
        ..Default::default()
    };
    // 2b. the same with y declared before x
    let multi_b = Project {
        steps: vec![multi.steps[0].clone(), multi.steps[2].clone(), multi.steps[1].clone(), multi.steps[3].clone()],
        ..Default::default()
    };
    // 2c. two consumers that each use both outputs of the producer
    let multi_2x2 = Project {
        steps: vec![
            multi.steps[0].clone(),
            mk("x", vec![e("p1"), e("p2")], None),
            mk("y", vec![e("p1"), e("p2")], None),
            mk("z", vec![e("x"), e("y")], None),
        ],
        ..Default::default()
    };
    // 3. restat chain in a pool: z -> y -> w with x independent; x, y, w in
    //    a depth-1 pool.
    let restat_pool = Project {
        pools: vec![("p".into(), 1)],
        steps: vec![
            mk("z", vec![], None),
            mk("y", vec![e("z")], Some("p")),
            mk("w", vec![e("y")], Some("p")),
            mk("x", vec![], Some("p")),
        ],
        ..Default::default()
    };
    // 4. wide fan-in at -j2
    let fan = Project {
        steps: vec![
            mk("f1", vec![], None),
            mk("f2", vec![], None),
            mk("f3", vec![], None),
            mk("f4", vec![], None),
            mk("sink", vec![e("f1"), e("f2"), e("f3"), e("f4")], None),
        ],
        ..Default::default()
    };
    // 5. validation edge closing a cycle, entered from each side
    let valcycle = Project {
        steps: vec![
            Step {
                outs: vec!["out".into()],
                cmdline: "OUT".into(),
                ins: vec![e("src_out"), (EdgeKind::Validation, "vin".into())],
                ..Default::default()
            },
            mk("vin", vec![e("out")], None),
        ],
        ..Default::default()
    };
    // multi-output shapes from a built tree: every subset of sources touched
    // (incl. none: the repeated build)
    for (name, p) in [("multi", &multi), ("multi-b", &multi_b), ("multi-2x2", &multi_2x2)] {
        for ev in 0..(1usize << 4) {
            for j in [1usize, 2, 3] {
                let mut s = Scenario::new((*p).clone());
                s.prebuilt = true;
                for (i, n) in ["p", "x", "y", "z"].iter().enumerate() {
                    if ev & (1 << i) != 0 {
                        s.edits.push(Edit::Touch(format!("src_{}", n)));
                    }
                }
                s.j = j;
                s.note = format!("S {} prebuilt edits={:?} j={}", name, s.edits, j);
                out.push(s);
            }
        }
    }
    for (name, p) in [("diamond", &diamond), ("multi", &multi), ("multi-b", &multi_b), ("multi-2x2", &multi_2x2), ("fan", &fan)] {
        for j in [1usize, 2, 3] {
            let mut s = Scenario::new(p.clone());
            s.j = j;
            s.note = format!("S {} fresh j={}", name, j);
            out.push(s);
            // one failing step, keep going
            for f in all_cmdlines(p) {
                let mut s = Scenario::new(p.clone());
                s.j = j;
                s.outcomes.insert(f.clone(), Outcome::Fail);
                s.k = None;
                s.note = format!("S {} fail {} j={}", name, f, j);
                out.push(s);
            }
        }
    }
    // restat chain: prebuilt, bump mtimes / touch sources in every combination
    for ev in 0..3usize.pow(4) {
        for restat in [true, false] {
            for j in [2usize, 3] {
                let mut s = Scenario::new(restat_pool.clone());
                s.prebuilt = true;
                let mut x = ev;
                for n in ["z", "y", "w", "x"] {
                    match x % 3 {
                        1 => s.edits.push(Edit::Touch(format!("src_{}", n))),
                        2 => s.edits.push(Edit::TouchMtime(format!("src_{}", n))),
                        _ => {}
                    }
                    x /= 3;
                }
                if restat {
                    s.restat_like = vec!["z".into(), "y".into(), "w".into(), "x".into()];
                }
                s.j = j;
                s.note = format!("S restat-pool edits={:?} restat={} j={}", s.edits, restat, j);
                out.push(s);
            }
        }
    }
    for targets in [vec![], vec!["out".to_string()], vec!["vin".to_string()], vec!["vin".to_string(), "out".to_string()], vec!["out".to_string(), "vin".to_string()]] {
        for j in [1usize, 2] {
            let mut s = Scenario::new(valcycle.clone());
            s.targets = targets.clone();
            s.j = j;
            s.note = format!("S validation-cycle targets={:?} j={}", targets, j);
            out.push(s);
        }
    }
    out
}
