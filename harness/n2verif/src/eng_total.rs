//! C12: totality of everything that reads untrusted text.  Every input in the
//! enumerated spaces must either load or be rejected with a well-formed
//! diagnostic; a panic, an abort (unsafe precondition, stack overflow) or a
//! hang is a violation.  Aborts and hangs kill the worker; the parent
//! attributes them through the shared-memory marker and resumes the shard.

use crate::worker::{catch, Ctx, Tier};
use serde_json::{json, Value};
use vcore::enumerate::{count_upto, for_range, shard_range};
use vcore::refmanifest::{corpus_attributes, corpus_build_shapes, corpus_sequences, render_canonical};
use vcore::report::ShardResult;

pub const TOKENS: &[&str] = &[
    "build", "rule", "default", "include", "subninja", "pool", "phony", "x", " ", "  ", "\n", ":", "|",
    "||", "|@", "$", "${", "}", "=", "#", "\0", "\r", "\t", "é", "$\n", "command",
];

pub fn jobs(tier: Tier) -> Vec<(String, u64)> {
    let mut j = vec![
        (format!("total:tokens:{}", tier.pick(5, 6)), 16),
        (format!("total:bytes:{}", tier.pick(2, 3)), 16),
        (format!("total:mutate:{}", tier.pick(1, 2)), 16),
        ("total:columns".into(), 16),
        ("total:emptypath".into(), 1),
        ("total:deeppath".into(), 2),
        (format!("total:include:{}", tier.pick(3, 4)), 16),
        (format!("total:targets:{}", tier.pick(6, 7)), 16),
    ];
    j.extend(crate::eng_depfile::jobs_total(tier));
    j
}

/// Validates an error message produced for `input` loaded under the name
/// `file`.  Returns a description of what is malformed.
fn check_diagnostic(msg: &str, input: &[u8], files: &[&str]) -> Option<String> {
    if msg.is_empty() {
        return Some("empty error message".into());
    }
    let Some(rest) = msg.strip_prefix("parse error: ") else {
        return None; // not a syntax error: any non-empty text will do
    };
    let m = rest.as_bytes();
    // first line: the message; then "<file>:<line>: <excerpt>"; then caret.
    let lines: Vec<&[u8]> = m.split(|&c| c == b'\n').collect();
    // The excerpt may itself not contain newlines, but the message can be
    // anything; locate the location line from the end: [.., loc, caret, ""].
    if lines.len() < 4 || !lines[lines.len() - 1].is_empty() {
        return Some(format!("parse error without location/caret lines: {:?}", msg));
    }
    let caret = lines[lines.len() - 2];
    let loc = lines[lines.len() - 3];
    if caret.is_empty() || *caret.last().unwrap() != b'^' || caret[..caret.len() - 1].iter().any(|&c| c != b' ') {
        return Some(format!("malformed caret line in {:?}", msg));
    }
    let mut found = None;
    for f in files {
        let prefix = format!("{}:", f);
        if loc.starts_with(prefix.as_bytes()) {
            found = Some(prefix.len());
        }
    }
    let Some(plen) = found else {
        return Some(format!("location line does not start with a loaded file name: {:?}", msg));
    };
    let after = &loc[plen..];
    let digits = after.iter().take_while(|c| c.is_ascii_digit()).count();
    if digits == 0 || !after[digits..].starts_with(b": ") {
        return Some(format!("no line number in {:?}", msg));
    }
    let line_no: usize = std::str::from_utf8(&after[..digits]).unwrap().parse().unwrap_or(0);
    let excerpt = &after[digits + 2..];
    let prefix_len = plen + digits + 2;
    if files.len() == 1 {
        // Single in-memory file: the line and excerpt can be checked.
        let mut buf = input.to_vec();
        buf.push(0);
        let src_lines: Vec<&[u8]> = buf.split(|&c| c == b'\n').collect();
        if line_no == 0 || line_no > src_lines.len() {
            return Some(format!("line {} out of range 1..={} in {:?}", line_no, src_lines.len(), msg));
        }
        let mut ex = excerpt;
        if let Some(e) = ex.strip_prefix(b"...") {
            ex = e;
        }
        if let Some(e) = ex.strip_suffix(b"...") {
            ex = e;
        }
        let src = src_lines[line_no - 1];
        // The excerpt is shown as text: bytes that are not UTF-8 appear as
        // U+FFFD, also where a cut split something.  Compare in that form,
        // ignoring replacement characters at the ends of the excerpt.
        let shown = String::from_utf8_lossy(ex).to_string();
        let shown = shown.trim_matches('\u{fffd}');
        let line_text = String::from_utf8_lossy(src).to_string();
        let contained = line_text.contains(shown) || src.windows(excerpt.len().max(1)).any(|w| w == excerpt);
        if !contained {
            return Some(format!("excerpt is not part of line {}: {:?}", line_no, msg));
        }
    }
    let caret_col = caret.len() - 1;
    if caret_col < prefix_len || caret_col > prefix_len + excerpt.len() {
        return Some(format!("caret outside the excerpt in {:?}", msg));
    }
    None
}

pub fn class_of(msg: &str) -> String {
    let first = msg.lines().next().unwrap_or("");
    let norm = |s: &str| -> String {
        s.chars()
            .map(|c| if c.is_ascii_digit() { '#' } else { c })
            .filter(|c| c.is_ascii_graphic() || *c == ' ')
            .take(40)
            .collect()
    };
    if let Some(rest) = first.strip_prefix("parse error: ") {
        // Drop quoted input text so that classes stay few.
        return format!("parse error: {}", norm(rest.split(['"', '\'']).next().unwrap_or("")));
    }
    // Other errors: leading word(s) up to the first path/quote, plus the OS
    // error text if any.
    let head = first.split(' ').next().unwrap_or("");
    let tail = first.rsplit(": ").next().unwrap_or("");
    if first.starts_with("read ") || first.starts_with("stat ") {
        return format!("{} <path>: {}", head, norm(tail));
    }
    norm(first.split(['"', '\'']).next().unwrap_or(""))
}

pub fn check_manifest(input: &[u8], files: &[&str], job: &str, res: &mut ShardResult) {
    res.evaluations += 1;
    let replay = || json!({"job": job, "kind": "manifest", "bytes": input});
    match catch(|| n2::verif::load_bytes(files[0], input)) {
        Err(p) => res.violation(
            &p.key(),
            || format!("loading {:?} panicked: {} at {}", String::from_utf8_lossy(input), p.message, p.location),
            replay,
        ),
        Ok(Ok(d)) => {
            if !d.builds.is_empty() {
                res.nontrivial += 1;
            }
            res.outcome("loaded");
        }
        Ok(Err(e)) => {
            let msg = e.to_string();
            match check_diagnostic(&msg, input, files) {
                Some(bad) => res.violation("malformed-diagnostic", || format!("input {:?}: {}", String::from_utf8_lossy(input), bad), replay),
                None => {
                    res.nontrivial += 1;
                    res.outcome(&format!("err:{}", class_of(&msg)));
                }
            }
        }
    }
}

fn tokenize(text: &str) -> Vec<String> {
    let mut out = Vec::new();
    let mut cur = String::new();
    for c in text.chars() {
        if c.is_alphanumeric() || c == '_' || c == '.' || c == '/' || c == '-' {
            cur.push(c);
        } else {
            if !cur.is_empty() {
                out.push(std::mem::take(&mut cur));
            }
            out.push(c.to_string());
        }
    }
    if !cur.is_empty() {
        out.push(cur);
    }
    out
}

const REPLACEMENTS: &[&str] = &[":", "|", "$", "\n", " ", "=", "#", "${", "\0", "||"];

fn mutate_job(ctx: &mut Ctx, res: &mut ShardResult, depth: usize) {
    let mut corpus = corpus_build_shapes();
    corpus.extend(corpus_attributes().into_iter().step_by(5));
    corpus.extend(corpus_sequences(2));
    let job = ctx.job.clone();
    std::fs::write("inc.ninja", "build incout: phony\n").ok();
    std::fs::write("sub.ninja", "build subout: phony\n").ok();
    for (idx, set) in corpus.iter().enumerate() {
        if idx as u64 % ctx.nshards != ctx.shard {
            continue;
        }
        let (text, _) = render_canonical(&set.files[0].1);
        let toks = tokenize(&text);
        let apply = |muts: &[(usize, u8, usize)], res: &mut ShardResult| {
            let mut out = String::new();
            for (i, t) in toks.iter().enumerate() {
                match muts.iter().find(|m| m.0 == i) {
                    None => out.push_str(t),
                    Some(&(_, 0, _)) => {}
                    Some(&(_, 1, _)) => {
                        out.push_str(t);
                        out.push_str(t);
                    }
                    Some(&(_, _, r)) => out.push_str(REPLACEMENTS[r]),
                }
            }
            ctx.marker.set(idx as u64, out.as_bytes());
            check_manifest(out.as_bytes(), &["build.ninja", "inc.ninja", "sub.ninja"], &job, res);
            out
        };
        let mut single: Vec<(usize, u8, usize)> = Vec::new();
        for i in 0..toks.len() {
            single.push((i, 0, 0));
            single.push((i, 1, 0));
            for r in 0..REPLACEMENTS.len() {
                single.push((i, 2, r));
            }
        }
        for (n, m) in single.iter().enumerate() {
            let out = apply(&[*m], res);
            if idx % 400 == 0 && n == 17 {
                res.sample(|| json!({"mutated_manifest": out}));
            }
        }
        // Without the final newline, and cut at every token boundary.
        for cut in 0..toks.len() {
            let out: String = toks[..cut].concat();
            ctx.marker.set(idx as u64, out.as_bytes());
            check_manifest(out.as_bytes(), &["build.ninja", "inc.ninja", "sub.ninja"], &job, res);
        }
        if depth >= 2 {
            // All pairs of (delete | replace-by-'$' | replace-by-newline).
            let light: Vec<(u8, usize)> = vec![(0, 0), (2, 2), (2, 3)];
            for i in 0..toks.len() {
                for j in (i + 1)..toks.len() {
                    for a in &light {
                        for b in &light {
                            apply(&[(i, a.0, a.1), (j, b.0, b.1)], res);
                        }
                    }
                }
            }
        }
    }
}

fn columns_job(ctx: &mut Ctx, res: &mut ShardResult) {
    // Units of 1-4-byte characters, and raw bytes that are not UTF-8 at all
    // (continuation bytes, a lone lead byte, Latin-1).
    let units: [&[u8]; 13] = [
        b"a",
        "é".as_bytes(),
        "€".as_bytes(),
        "😀".as_bytes(),
        "aé".as_bytes(),
        "a€".as_bytes(),
        "a😀".as_bytes(),
        "é€".as_bytes(),
        b"\x80",
        b"\xbf\xbf",
        b"a\x80\x80\x80\x80\x80",
        b"\xe2\x82",
        b"\xff",
    ];
    let job = ctx.job.clone();
    let mut idx = 0u64;
    let mut run = |text: Vec<u8>, res: &mut ShardResult| {
        idx += 1;
        if idx % ctx.nshards != ctx.shard {
            return;
        }
        ctx.marker.set(idx, &text);
        check_manifest(&text, &["build.ninja"], &job, res);
        if idx % 9973 == 0 {
            res.sample(|| json!({"manifest": String::from_utf8_lossy(&text)}));
        }
    };
    let cat = |parts: &[&[u8]]| -> Vec<u8> { parts.concat() };
    for unit in units {
        for lead in 0..4usize {
            let mut lens: Vec<usize> = (1..=70).collect();
            lens.extend([4085, 4090, 4094, 4095, 4096, 4097]);
            for &len in &lens {
                let mut s: Vec<u8> = vec![b'a'; lead];
                while s.len() < len {
                    s.extend_from_slice(unit);
                }
                // error at the end of a long line (missing colon)
                run(cat(&[b"build ", &s, b"\n"]), res);
                // error at the start, long tail
                run(cat(&[b" ", &s, b"\n"]), res);
                // error in the middle, long head and tail
                if len <= 70 {
                    for tail in [0usize, 10, 30, 50] {
                        let t: Vec<u8> = unit.repeat(tail);
                        run(cat(&[b"build ", &s, b"$~", &t, b"\n"]), res);
                        run(cat(&[b"rule r\n  command = ", &s, b"${", &t, b"\n"]), res);
                        run(cat(&[b"build o: phony\nv = 1\n  ", &s, b"\n"]), res);
                    }
                }
            }
        }
    }
}

fn emptypath_job(ctx: &mut Ctx, res: &mut ShardResult) {
    let job = ctx.job.clone();
    std::fs::write("x", "build fromx: phony\n").ok();
    let mut cases: Vec<String> = Vec::new();
    for e in ["$e", "${e}", "$e$e"] {
        for (pre, post) in [("", ""), ("a ", ""), ("", " b")] {
            let p = format!("{}{}{}", pre, e, post);
            cases.push(format!("rule r\n  command = c\nbuild {}: r\n", p));
            cases.push(format!("rule r\n  command = c\nbuild o | {}: r\n", p));
            cases.push(format!("rule r\n  command = c\nbuild o: r {}\n", p));
            cases.push(format!("rule r\n  command = c\nbuild o: r | {}\n", p));
            cases.push(format!("rule r\n  command = c\nbuild o: r || {}\n", p));
            cases.push(format!("rule r\n  command = c\nbuild o: r |@ {}\n", p));
            cases.push(format!("build o: phony\ndefault {}\n", p));
        }
        cases.push(format!("include {}\n", e));
        cases.push(format!("subninja {}\n", e));
        cases.push(format!("e =\nbuild {}: phony\n", e));
        cases.push(format!("build o: phony {}\n  e =\n", e));
    }
    for (i, c) in cases.iter().enumerate() {
        ctx.marker.set(i as u64, c.as_bytes());
        check_manifest(c.as_bytes(), &["build.ninja", "x"], &job, res);
    }
    res.sample(|| json!({"manifest": cases[0]}));
}

fn deeppath_job(ctx: &mut Ctx, res: &mut ShardResult) {
    let job = ctx.job.clone();
    let mut idx = 0u64;
    for n in 58..=66usize {
        for sep in ["/", "\\"] {
            // plain, and with `..` components at and around the depth where the
            // canonicaliser's inline component stack is full: one `..` after
            // n components, k of them at the end, `.` components in between
            let plain = vec!["a"; n].join(sep);
            let mut paths = vec![plain.clone()];
            for k in [1usize, 2, 3, 7, n] {
                paths.push(format!("{}{}{}", plain, sep, vec![".."; k].join(sep)));
                paths.push(format!("{}{}{}{}x", plain, sep, vec![".."; k].join(sep), sep));
            }
            paths.push(format!("{}{}.{}..{}b{}..{}..{}c", plain, sep, sep, sep, sep, sep, sep));
            for p in paths {
            for text in [
                format!("build {}: phony\n", p),
                format!("build o: phony {}\n", p),
                format!("build o: phony\ndefault {}\n", p),
                format!("include {}\n", p),
                format!("build o: phony | x/../{}\n", p),
            ] {
                idx += 1;
                if idx % ctx.nshards != ctx.shard {
                    continue;
                }
                ctx.marker.set(idx, text.as_bytes());
                check_manifest(text.as_bytes(), &["build.ninja"], &job, res);
            }
            }
        }
    }
}

/// Included files: every token sequence up to a bound as the content of an
/// included / subninja'd file on disk, plus files that include themselves or
/// each other.
fn include_job(ctx: &mut Ctx, res: &mut ShardResult, max: u32) {
    let job = ctx.job.clone();
    let toks: Vec<&str> = {
        let mut t: Vec<&str> = TOKENS.to_vec();
        t.push("inc.ninja");
        t.push("build.ninja");
        t
    };
    let k = toks.len() as u64;
    let total = count_upto(k, 0, max);
    let (lo, hi) = shard_range(total, ctx.shard, ctx.nshards);
    let mut buf = Vec::new();
    for_range(k, 0, max, lo, hi, |idx, seq| {
        if ctx.skip(idx) {
            return;
        }
        buf.clear();
        for &s in seq {
            buf.extend_from_slice(toks[s as usize].as_bytes());
        }
        buf.push(b'\n');
        ctx.marker.set(idx, &buf);
        std::fs::write("inc.ninja", &buf).expect("write inc");
        // build.ninja on disk is what a nested `include build.ninja` reads.
        for main in ["include inc.ninja\n", "subninja inc.ninja\n"] {
            std::fs::write("build.ninja", main).expect("write main");
            res.evaluations += 1;
            let rp = || json!({"job": job, "kind": "include", "main": main, "inc": buf});
            match catch(|| n2::verif::load_bytes("build.ninja", main.as_bytes())) {
                Err(p) => res.violation(
                    &p.key(),
                    || format!("{:?} with inc.ninja = {:?} panicked: {} at {}", main, String::from_utf8_lossy(&buf), p.message, p.location),
                    rp,
                ),
                Ok(Ok(_)) => res.outcome("loaded"),
                Ok(Err(e)) => {
                    let msg = e.to_string();
                    match check_diagnostic(&msg, &buf, &["inc.ninja", "build.ninja"]) {
                        Some(bad) => res.violation("malformed-diagnostic", || format!("inc.ninja {:?}: {}", String::from_utf8_lossy(&buf), bad), rp),
                        None => {
                            res.nontrivial += 1;
                            res.outcome(&format!("err:{}", class_of(&msg)));
                        }
                    }
                }
            }
        }
        if idx % 20_011 == 0 {
            let b = buf.clone();
            res.sample(|| json!({"inc.ninja": String::from_utf8_lossy(&b)}));
        }
    });
}

/// Command-line target strings against a small all-phony graph.
fn targets_job(ctx: &mut Ctx, res: &mut ShardResult, max: u32) {
    crate::exec::install_hooks();
    let job = ctx.job.clone();
    let alpha = ["a", ".", "/", "\\", "é"];
    let k = alpha.len() as u64;
    let total = count_upto(k, 0, max);
    let (lo, hi) = shard_range(total, ctx.shard, ctx.nshards);
    crate::exec::clear_dir();
    std::fs::write("build.ninja", "build a: phony\nbuild a/a: phony a\nbuild é: phony\n").unwrap();
    let mut t = String::new();
    for_range(k, 0, max, lo, hi, |idx, seq| {
        if ctx.skip(idx) {
            return;
        }
        t.clear();
        for &s in seq {
            t.push_str(alpha[s as usize]);
        }
        ctx.marker.set(idx, t.as_bytes());
        res.evaluations += 1;
        let target = t.clone();
        let r = catch(|| {
            n2::verif::verif_build(n2::verif::BuildOpts {
                targets: vec![target],
                parallelism: 1,
                ..Default::default()
            })
        });
        let rp = || json!({"job": job, "kind": "target", "target": t});
        match r {
            Err(p) => res.violation(&p.key(), || format!("target {:?} panicked: {} at {}", t, p.message, p.location), rp),
            Ok(Ok(Some(0))) => {
                res.nontrivial += 1;
                res.outcome("target-known")
            }
            Ok(Ok(other)) => res.violation("target-unexpected-result", || format!("target {:?}: {:?}", t, other), rp),
            Ok(Err(e)) => {
                let msg = e.to_string();
                if msg.is_empty() {
                    res.violation("malformed-diagnostic", || format!("target {:?}: empty error", t), rp);
                } else {
                    res.outcome(&format!("err:{}", class_of(&msg)));
                }
            }
        }
        if idx % 9973 == 0 {
            res.sample(|| json!({"target": t}));
        }
    });
    let _ = std::fs::remove_file(".n2_db");
}

pub fn run(ctx: &mut Ctx) -> ShardResult {
    let mut res = ShardResult::default();
    let job = ctx.job.clone();
    if let Some(case) = ctx.replay.clone() {
        let bytes = |v: &Value| -> Vec<u8> {
            v.as_array().map(|a| a.iter().map(|x| x.as_u64().unwrap_or(0) as u8).collect()).unwrap_or_default()
        };
        match case["kind"].as_str().unwrap_or("manifest") {
            "manifest" => {
                std::fs::write("inc.ninja", "build incout: phony\n").ok();
                std::fs::write("sub.ninja", "build subout: phony\n").ok();
                std::fs::write("x", "build fromx: phony\n").ok();
                let b = bytes(&case["bytes"]);
                check_manifest(&b, &["build.ninja", "inc.ninja", "sub.ninja", "x"], &job, &mut res);
            }
            "include" => {
                let inc = bytes(&case["inc"]);
                let main = case["main"].as_str().unwrap_or("").to_string();
                std::fs::write("inc.ninja", &inc).unwrap();
                std::fs::write("build.ninja", &main).unwrap();
                res.evaluations += 1;
                match catch(|| n2::verif::load_bytes("build.ninja", main.as_bytes())) {
                    Err(p) => res.violation(&p.key(), || format!("panicked: {} at {}", p.message, p.location), || case.clone()),
                    Ok(Err(e)) => {
                        if let Some(bad) = check_diagnostic(&e.to_string(), &inc, &["inc.ninja", "build.ninja"]) {
                            res.violation("malformed-diagnostic", || bad, || case.clone());
                        }
                    }
                    Ok(Ok(_)) => {}
                }
            }
            "target" => {
                crate::exec::install_hooks();
                std::fs::write("build.ninja", "build a: phony\nbuild a/a: phony a\nbuild é: phony\n").unwrap();
                let t = case["target"].as_str().unwrap_or("").to_string();
                res.evaluations += 1;
                let tt = t.clone();
                match catch(|| {
                    n2::verif::verif_build(n2::verif::BuildOpts {
                        targets: vec![tt],
                        parallelism: 1,
                        ..Default::default()
                    })
                }) {
                    Err(p) => res.violation(&p.key(), || format!("target {:?} panicked: {} at {}", t, p.message, p.location), || case.clone()),
                    _ => {}
                }
            }
            other => panic!("unknown total replay kind {}", other),
        }
        return res;
    }
    let parts: Vec<&str> = job.split(':').collect();
    let num = |i: usize| -> u32 { parts.get(i).and_then(|s| s.parse().ok()).expect("job parameter") };
    match parts[1] {
        "tokens" => {
            std::fs::write("x", "build fromx: phony\n").ok();
            let max = num(2);
            let k = TOKENS.len() as u64;
            let total = count_upto(k, 0, max);
            let (lo, hi) = shard_range(total, ctx.shard, ctx.nshards);
            let mut buf = Vec::new();
            for_range(k, 0, max, lo, hi, |idx, seq| {
                if ctx.skip(idx) {
                    return;
                }
                buf.clear();
                for &s in seq {
                    buf.extend_from_slice(TOKENS[s as usize].as_bytes());
                }
                ctx.marker.set(idx, &buf);
                check_manifest(&buf, &["build.ninja", "x"], &job, &mut res);
                buf.push(b'\n');
                ctx.marker.set(idx, &buf);
                check_manifest(&buf, &["build.ninja", "x"], &job, &mut res);
                if idx % 1_000_003 == 0 {
                    let b = buf.clone();
                    res.sample(|| json!({"manifest": String::from_utf8_lossy(&b)}));
                }
            });
        }
        "bytes" => {
            let max = num(2);
            let total = count_upto(256, 0, max);
            let (lo, hi) = shard_range(total, ctx.shard, ctx.nshards);
            let mut seq = Vec::new();
            for idx in lo..hi {
                if ctx.skip(idx) {
                    continue;
                }
                // lengths 0..=max over 256 symbols do not fit the u8 odometer
                // helper (k = 256 symbols is fine: digits are 0..=255).
                vcore::enumerate::decode_upto(256, 0, max, idx, &mut seq);
                ctx.marker.set(idx, &seq);
                check_manifest(&seq, &["build.ninja"], &job, &mut res);
            }
        }
        "mutate" => mutate_job(ctx, &mut res, num(2) as usize),
        "columns" => columns_job(ctx, &mut res),
        "emptypath" => emptypath_job(ctx, &mut res),
        "deeppath" => deeppath_job(ctx, &mut res),
        "include" => include_job(ctx, &mut res, num(2)),
        "targets" => targets_job(ctx, &mut res, num(2)),
        other => panic!("unknown total job {}", other),
    }
    res
}

pub fn case_from_marker(job: &str, bytes: &[u8]) -> Value {
    let parts: Vec<&str> = job.split(':').collect();
    match parts.get(1).copied() {
        Some("include") => json!({"job": job, "kind": "include", "main": "include inc.ninja\n", "inc": bytes}),
        Some("targets") => json!({"job": job, "kind": "target", "target": String::from_utf8_lossy(bytes)}),
        _ => json!({"job": job, "kind": "manifest", "bytes": bytes}),
    }
}
