//! The `hist` engine: every history of edits and invocations up to a depth,
//! on a real directory tree with the real loader, db and scheduler (commands
//! scripted).  After every invocation the real tree is compared with the
//! reference model: what ran must have been dirty (C03), what was left must be
//! clean and carry the content a from-scratch build would produce (C02);
//! templates exercise discovered dependencies (C09), manifest edits (C08) and
//! manifest regeneration (C17).

use crate::exec::{self, BuildResult, Event, ExecConfig, Snapshot, Term};
use crate::sim::{take_sim, Generator, Outcome, Sim};
use crate::worker::{Ctx, Tier};
use n2::verif::BuildOpts;
use serde_json::{json, Value};
use std::collections::{BTreeMap, BTreeSet};
use vcore::project::{EdgeKind, Project, Step};
use vcore::refbuild::{canon, Dirty, FileInfo, Model};
use vcore::report::ShardResult;

#[derive(Debug, Clone, PartialEq, Eq)]
pub enum EditOp {
    /// New content and mtime for a source or header.
    Touch(String),
    /// Delete a generated file (output or intermediate).
    RemoveOut(String),
    /// Bump the mtime of a generated file.
    TouchOut(String),
    /// Delete a header and stop including it anywhere.
    RemoveHeader(String),
    /// Delete a declared source input.
    RemoveSource(String),
    /// The command of the step with this first output now reports these.
    Reports(String, Vec<String>),
    /// The command of this step stops writing its depfile (and the old one
    /// is gone); the source changed.
    DepfileGone(String),
    /// Replace the manifest by variant n.
    Variant(usize),
    /// Touch the generator input; the generator will write variant n.
    GenVariant(usize),
}

#[derive(Debug, Clone, PartialEq, Eq)]
pub enum Inv {
    Build(Vec<String>),
    /// Default targets at -j2, every completion order (state continues from
    /// the default order).
    BuildAllOrders,
    Fail(String, Option<usize>),
    /// Kill n2 when it blocks for the (n+1)-th time; running commands leave
    /// fresh garbage in their outputs if `partial`.
    Kill(usize, bool),
    Restat(Vec<String>),
    /// n2 dies while appending to the log: the last log write of the default
    /// build persists only its first half.
    Torn,
}

#[derive(Clone)]
pub struct Template {
    pub name: &'static str,
    pub variants: Vec<Project>,
    pub manifest_name: String,
    pub headers: Vec<String>,
    pub reports: BTreeMap<String, Vec<String>>,
    pub report_options: Vec<(String, Vec<Vec<String>>)>,
    pub restat_like: Vec<String>,
    pub targets: Vec<Vec<String>>,
    pub fail_cmds: Vec<String>,
    pub generator: bool,
    pub removable_sources: Vec<String>,
    /// Report settings that come with a manifest variant (the sources were
    /// edited together with the manifest).
    pub variant_reports: BTreeMap<usize, BTreeMap<String, Vec<String>>>,
    /// Declared outputs the commands never produce.
    pub skip_outputs: Vec<String>,
    /// Files a command rewrites in place while running (by first output).
    pub side_touch: BTreeMap<String, Vec<String>>,
}

fn e(f: &str) -> (EdgeKind, String) {
    (EdgeKind::Explicit, f.to_string())
}
fn imp(f: &str) -> (EdgeKind, String) {
    (EdgeKind::Implicit, f.to_string())
}
fn oo(f: &str) -> (EdgeKind, String) {
    (EdgeKind::OrderOnly, f.to_string())
}

fn st(out: &str, cmd: &str, ins: Vec<(EdgeKind, String)>) -> Step {
    Step {
        outs: vec![out.to_string()],
        cmdline: cmd.to_string(),
        ins,
        ..Default::default()
    }
}

/// Header names of about 210 bytes each.
pub fn wide_headers(n: usize) -> Vec<String> {
    (0..n).map(|i| format!("inc/{}_{:02}.h", "h".repeat(200), i)).collect()
}

pub fn templates() -> Vec<Template> {
    let mut out = Vec::new();

    // 1. chain with a depfile-reported header
    {
        let obj = |cmd: &str, msvc: bool| {
            let mut s = st("obj", cmd, vec![e("src.c"), imp("cfg.h"), oo("stamp.in")]);
            if msvc {
                s.msvc = true;
            } else {
                s.depfile = Some("obj.d".into());
            }
            s
        };
        for msvc in [false, true] {
            let base = Project {
                // (a third step declares a header as its own input that obj may
                // also discover)
                steps: vec![obj("CC", msvc), st("bin", "LD", vec![e("obj"), e("lib.in")]), st("tool", "TOOL", vec![e("tool.in"), e("hdr2.h")])],
                ..Default::default()
            };
            let mut v_cmd = base.clone();
            v_cmd.steps[0].cmdline = "CC -O2".into();
            let mut v_extra = base.clone();
            // (the unrelated step mentions a header that obj only discovers,
            // which changes the order in which files are numbered)
            v_extra.steps.insert(0, st("other", "OTHER", vec![e("other.in"), e("hdr2.h")]));
            v_extra.preamble = "# a comment\nunused = 1\n".into();
            let mut v_reorder = base.clone();
            v_reorder.steps.reverse();
            let mut v_newin = base.clone();
            v_newin.steps[1].ins.push(e("extra.in"));
            let mut v_default = base.clone();
            v_default.defaults = vec!["obj".into()];
            // the compile step stops reporting dependencies altogether
            let mut v_noreport = base.clone();
            v_noreport.steps[0].depfile = None;
            v_noreport.steps[0].msvc = false;
            // the step that declares hdr2.h is gone: hdr2.h is then numbered
            // from the log, after hdr.h instead of before it
            let mut v_notool = base.clone();
            v_notool.steps.retain(|s| s.outs[0] != "tool");
            // v_cmd with another amount of blank between the words of the
            // command: a different command (blanks can be data to the shell)
            let mut v_cmd_ws = base.clone();
            v_cmd_ws.steps[0].cmdline = "CC  -O2".into();
            out.push(Template {
                name: if msvc { "msvc-chain" } else { "depfile-chain" },
                variants: vec![base, v_cmd, v_extra, v_reorder, v_newin, v_default, v_noreport, v_notool, v_cmd_ws],
                manifest_name: "build.ninja".into(),
                headers: vec!["hdr.h".into(), "hdr2.h".into()],
                reports: [("obj".to_string(), vec!["hdr.h".to_string()])].into_iter().collect(),
                report_options: vec![(
                    "obj".into(),
                    vec![
                        vec![],
                        vec!["hdr.h".into()],
                        vec!["hdr.h".into(), "hdr2.h".into()],
                        vec!["hdr2.h".into()],
                        vec!["./hdr.h".into(), "hdr.h".into(), "x/../hdr.h".into()],
                        vec!["src.c".into(), "cfg.h".into(), "hdr.h".into()],
                        vec!["stamp.in".into()],
                    ],
                )],
                restat_like: vec![],
                targets: vec![vec!["obj".into()], vec!["bin".into()]],
                fail_cmds: vec!["CC".into(), "LD".into()],
                generator: false,
                removable_sources: vec!["lib.in".into()],
                // dropping the dependency reporting comes with a source edit
                variant_reports: [(6usize, [("obj".to_string(), Vec::<String>::new())].into_iter().collect::<BTreeMap<String, Vec<String>>>())].into_iter().collect(),
            skip_outputs: vec![],
            side_touch: BTreeMap::new(),
            });
        }
    }

    // 2. diamond
    {
        let base = Project {
            steps: vec![
                st("a", "A", vec![e("a.in")]),
                st("b", "B", vec![e("a"), e("b.in")]),
                st("c", "C", vec![imp("a"), e("c.in")]),
                st("d", "D", vec![e("b"), e("c")]),
            ],
            ..Default::default()
        };
        let mut v_edge = base.clone();
        v_edge.steps[3].ins.retain(|(_, f)| f != "c");
        let mut v_order = base.clone();
        v_order.steps[2].ins[0] = oo("a");
        out.push(Template {
            name: "diamond",
            variants: vec![base, v_edge, v_order],
            manifest_name: "build.ninja".into(),
            headers: vec![],
            reports: BTreeMap::new(),
            report_options: vec![],
            restat_like: vec![],
            targets: vec![vec!["b".into()], vec!["d".into()], vec!["c".into()]],
            fail_cmds: vec!["A".into(), "B".into(), "D".into()],
            generator: false,
            removable_sources: vec![],
            variant_reports: BTreeMap::new(),
            skip_outputs: vec![],
            side_touch: BTreeMap::new(),
        });
    }

    // 3. two-output step feeding two consumers; variants move / drop outputs
    {
        let p = |outs: &[&str]| Step {
            outs: outs.iter().map(|s| s.to_string()).collect(),
            cmdline: format!("P {}", outs.join(" ")),
            ins: vec![e("p.in")],
            depfile: Some("p.d".into()),
            ..Default::default()
        };
        let base = Project {
            steps: vec![p(&["p1", "p2"]), st("x", "X", vec![e("p1")]), st("y", "Y", vec![e("p2")])],
            ..Default::default()
        };
        // p2 now comes from its own step
        let moved = Project {
            steps: vec![p(&["p1"]), st("p2", "P2", vec![e("p2.in")]), st("x", "X", vec![e("p1")]), st("y", "Y", vec![e("p2")])],
            ..Default::default()
        };
        // p produces only p1; p2 is a source now
        let dropped = Project {
            steps: vec![p(&["p1"]), st("x", "X", vec![e("p1")]), st("y", "Y", vec![e("p2")])],
            ..Default::default()
        };
        // same command text, output order swapped
        let mut swapped = base.clone();
        swapped.steps[0].outs.reverse();
        out.push(Template {
            name: "two-outputs",
            variants: vec![base, moved, dropped, swapped],
            manifest_name: "build.ninja".into(),
            headers: vec!["ph.h".into(), "gone.h".into()],
            reports: [("p1".to_string(), vec!["ph.h".to_string(), "gone.h".to_string()])].into_iter().collect(),
            report_options: vec![("p1".into(), vec![vec![], vec!["ph.h".into()], vec!["ph.h".into(), "gone.h".into()]])],
            restat_like: vec![],
            targets: vec![vec!["x".into()], vec!["y".into()]],
            fail_cmds: vec!["X".into()],
            generator: false,
            removable_sources: vec![],
            variant_reports: BTreeMap::new(),
            skip_outputs: vec![],
            side_touch: BTreeMap::new(),
        });
    }

    // 4. order-only stamp and a discovered dependency on the generated header
    {
        let mut obj = st("obj", "CC", vec![e("src.c"), oo("gen.h")]);
        obj.depfile = Some("obj.d".into());
        let base = Project {
            steps: vec![st("gen.h", "GEN", vec![e("gen.in")]), obj, st("bin", "LD", vec![e("obj")])],
            ..Default::default()
        };
        // The compile step used to have a second output and stops having it,
        // together with its dependency on the generated header.
        let mut two = base.clone();
        two.steps[1].outs.push("obj.aux".into());
        let mut shrunk = base.clone();
        shrunk.steps[1].ins.retain(|(_, f)| f != "gen.h");
        out.push(Template {
            name: "generated-header",
            variants: vec![base, two, shrunk],
            manifest_name: "build.ninja".into(),
            headers: vec!["plain.h".into()],
            reports: [("obj".to_string(), vec!["gen.h".to_string()])].into_iter().collect(),
            report_options: vec![("obj".into(), vec![vec![], vec!["gen.h".into()], vec!["gen.h".into(), "plain.h".into()]])],
            restat_like: vec!["gen.h".into()],
            targets: vec![vec!["obj".into()]],
            fail_cmds: vec!["GEN".into(), "CC".into()],
            generator: false,
            removable_sources: vec![],
            variant_reports: [
                (0usize, [("obj".to_string(), vec!["gen.h".to_string()])].into_iter().collect()),
                (1usize, [("obj".to_string(), vec!["gen.h".to_string()])].into_iter().collect()),
                (2usize, [("obj".to_string(), vec!["plain.h".to_string()])].into_iter().collect()),
            ]
            .into_iter()
            .collect(),
            skip_outputs: vec![],
            side_touch: BTreeMap::new(),
        });
    }

    // 4b. a compile step with a generated implicit input and, ordered only,
    //     a generated header that it then reports as a dependency
    {
        let mut obj = st("obj", "CC", vec![e("src.c"), imp("cfg.h"), oo("gen.h")]);
        obj.depfile = Some("obj.d".into());
        let base = Project {
            steps: vec![st("cfg.h", "CFG", vec![e("cfg.in")]), st("gen.h", "GEN", vec![e("gen.in")]), obj, st("bin", "LD", vec![e("obj")])],
            ..Default::default()
        };
        let mut reordered = base.clone();
        reordered.steps.swap(0, 1);
        out.push(Template {
            name: "two-generated-headers",
            variants: vec![base, reordered],
            manifest_name: "build.ninja".into(),
            headers: vec![],
            reports: [("obj".to_string(), vec!["gen.h".to_string()])].into_iter().collect(),
            report_options: vec![],
            restat_like: vec![],
            targets: vec![vec!["obj".into()]],
            fail_cmds: vec!["GEN".into()],
            generator: false,
            removable_sources: vec![],
            variant_reports: BTreeMap::new(),
            skip_outputs: vec![],
            side_touch: BTreeMap::new(),
        });
    }

    // 3b. two consumers that each use both outputs of one step
    {
        let p = Step {
            outs: vec!["p1".into(), "p2".into()],
            cmdline: "P".into(),
            ins: vec![e("p.in")],
            ..Default::default()
        };
        let base = Project {
            steps: vec![p, st("x", "X", vec![e("p1"), e("p2"), e("x.in")]), st("y", "Y", vec![e("p1"), e("p2"), e("y.in")])],
            ..Default::default()
        };
        // the producer written without explicit outputs: `build | p1 p2: ...`
        let mut implicit_only = base.clone();
        implicit_only.steps[0].no_explicit_outs = true;
        out.push(Template {
            name: "two-by-two",
            variants: vec![base, implicit_only],
            manifest_name: "build.ninja".into(),
            headers: vec![],
            reports: BTreeMap::new(),
            report_options: vec![],
            restat_like: vec![],
            targets: vec![vec!["x".into()]],
            fail_cmds: vec!["X".into()],
            generator: false,
            removable_sources: vec![],
            variant_reports: BTreeMap::new(),
            skip_outputs: vec![],
            side_touch: BTreeMap::new(),
        });
    }

    // 4c. one compile step with dozens of long-named headers: its log records
    //     fill more than one 8 KiB read buffer of the log reader
    {
        let mut obj = st("obj", "CC", vec![e("src.c")]);
        obj.depfile = Some("obj.d".into());
        let base = Project {
            steps: vec![obj, st("bin", "LD", vec![e("obj")])],
            ..Default::default()
        };
        let headers = wide_headers(42);
        out.push(Template {
            name: "wide-headers",
            variants: vec![base],
            manifest_name: "build.ninja".into(),
            headers: headers.clone(),
            reports: [("obj".to_string(), headers[..36].to_vec())].into_iter().collect(),
            report_options: vec![],
            restat_like: vec![],
            targets: vec![],
            fail_cmds: vec![],
            generator: false,
            removable_sources: vec![],
            variant_reports: BTreeMap::new(),
            skip_outputs: vec![],
            side_touch: BTreeMap::new(),
        });
    }

    // 5. response file
    {
        let mk = |content: &str, path: &str| {
            let mut s = st("lib", "AR @rsp", vec![e("o1.in"), e("o2.in")]);
            s.implicit_outs = vec!["lib.map".into()];
            s.rspfile = Some((path.to_string(), content.to_string()));
            Project {
                steps: vec![s, st("app", "LINK", vec![e("lib")])],
                ..Default::default()
            }
        };
        out.push(Template {
            name: "rspfile",
            variants: vec![mk("o1.in o2.in", "lib.rsp"), mk("o2.in o1.in", "lib.rsp"), mk("o1.in o2.in", "other.rsp")],
            manifest_name: "build.ninja".into(),
            headers: vec![],
            reports: BTreeMap::new(),
            report_options: vec![],
            restat_like: vec![],
            targets: vec![vec!["lib".into()]],
            fail_cmds: vec!["AR @rsp".into()],
            generator: false,
            removable_sources: vec![],
            variant_reports: BTreeMap::new(),
            skip_outputs: vec![],
            side_touch: BTreeMap::new(),
        });
    }

    // 6. restat-like upstream
    {
        let base = Project {
            steps: vec![
                st("up", "UP", vec![e("up.in")]),
                st("mid", "MID", vec![e("up"), e("mid.in")]),
                st("down", "DOWN", vec![e("mid")]),
            ],
            ..Default::default()
        };
        out.push(Template {
            name: "restat-upstream",
            variants: vec![base],
            manifest_name: "build.ninja".into(),
            headers: vec![],
            reports: BTreeMap::new(),
            report_options: vec![],
            restat_like: vec!["up".into(), "mid".into()],
            targets: vec![vec!["mid".into()], vec!["down".into()]],
            fail_cmds: vec!["MID".into()],
            generator: false,
            removable_sources: vec![],
            variant_reports: BTreeMap::new(),
            skip_outputs: vec![],
            side_touch: BTreeMap::new(),
        });
    }

    // 6b. two compile steps sharing a header; the first declares an output it
    //     never produces (so it is never recorded)
    {
        let cc = |out: &str, extra: Option<&str>, src: &str| {
            let mut s = st(out, &format!("CC {}", src), vec![e(src)]);
            if let Some(x) = extra {
                s.outs.push(x.to_string());
            }
            s.depfile = Some(format!("{}.d", out));
            s
        };
        let base = Project {
            steps: vec![cc("x.o", Some("x.tmp"), "x.c"), cc("y.o", None, "y.c"), st("app", "LINK", vec![e("x.o"), e("y.o")])],
            ..Default::default()
        };
        out.push(Template {
            name: "two-objects",
            variants: vec![base],
            manifest_name: "build.ninja".into(),
            headers: vec!["common.h".into(), "y.h".into()],
            reports: [
                ("x.o".to_string(), vec!["common.h".to_string()]),
                ("y.o".to_string(), vec!["common.h".to_string(), "y.h".to_string()]),
            ]
            .into_iter()
            .collect(),
            report_options: vec![("y.o".into(), vec![vec!["common.h".into()], vec!["common.h".into(), "y.h".into()], vec!["y.h".into()]])],
            restat_like: vec![],
            targets: vec![vec!["y.o".into()]],
            fail_cmds: vec!["LINK".into()],
            generator: false,
            removable_sources: vec![],
            variant_reports: BTreeMap::new(),
            skip_outputs: vec!["x.tmp".into()],
            side_touch: BTreeMap::new(),
        });
    }

    // 6c. a step that refreshes a file it also reports as a dependency
    {
        let mut idx = st("index", "INDEX", vec![e("idx.in")]);
        idx.depfile = Some("index.d".into());
        let base = Project {
            steps: vec![idx, st("gen", "GENERATE", vec![e("index")]), st("plain", "PLAIN", vec![e("plain.in")])],
            ..Default::default()
        };
        out.push(Template {
            name: "self-touch",
            variants: vec![base],
            manifest_name: "build.ninja".into(),
            headers: vec!["cache.h".into(), "other.h".into()],
            reports: [("index".to_string(), vec!["cache.h".to_string(), "other.h".to_string()])].into_iter().collect(),
            report_options: vec![("index".into(), vec![vec!["cache.h".into()], vec!["cache.h".into(), "other.h".into()]])],
            restat_like: vec![],
            targets: vec![vec!["gen".into()]],
            fail_cmds: vec!["GENERATE".into()],
            generator: false,
            removable_sources: vec![],
            variant_reports: BTreeMap::new(),
            skip_outputs: vec![],
            side_touch: [("index".to_string(), vec!["cache.h".to_string()])].into_iter().collect(),
        });
    }

    // 7. generator producing the manifest
    for (manifest_name, shared, tname) in [("build.ninja", 1usize, "generator"), ("gen.ninja", 1, "generator-f"), ("build.ninja", 4, "generator-split")] {
        let mut variants: Vec<Project> = [0usize, 1, 2, 3, 4, 5, 6, 7, 9, 10].iter().map(|&v| crate::scen::regen_project(manifest_name, shared, v)).collect();
        // User step c reports a header through a depfile; in the last variant
        // the generator rewires it to a command without one (the header it used
        // to report is then nobody's business any more).
        for p in variants.iter_mut() {
            if let Some(c) = p.steps.iter_mut().find(|s| s.outs[0] == "c") {
                c.depfile = Some("c.d".into());
            }
        }
        let mut rewired = variants[0].clone();
        if let Some(c) = rewired.steps.iter_mut().find(|s| s.outs[0] == "c") {
            c.cmdline = "C copy".into();
            c.depfile = None;
        }
        variants.push(rewired);
        let nvar = variants.len();
        let gen_variant_reports: BTreeMap<usize, BTreeMap<String, Vec<String>>> = (0..nvar)
            .map(|i| (i, [("c".to_string(), if i + 1 == nvar { Vec::new() } else { vec!["chdr.h".to_string()] })].into_iter().collect()))
            .collect();
        out.push(Template {
            name: tname,
            variants,
            manifest_name: manifest_name.into(),
            headers: vec!["chdr.h".into()],
            reports: [("c".to_string(), vec!["chdr.h".to_string()])].into_iter().collect(),
            report_options: vec![],
            restat_like: vec![],
            targets: vec![vec!["b".into()], vec!["c".into()], vec!["newt".into()]],
            fail_cmds: vec!["A".into(), "GEN".into()],
            generator: true,
            removable_sources: vec![],
            variant_reports: gen_variant_reports,
            skip_outputs: vec![],
            side_touch: BTreeMap::new(),
        });
    }
    out
}

/// Which templates a property's check walks.
pub fn jobs(prop: &str, tier: Tier) -> Vec<(String, u64)> {
    let names: Vec<&str> = match prop {
        "C02" | "C03" if tier == Tier::Quick => vec!["depfile-chain", "diamond", "two-outputs", "two-by-two", "generated-header", "two-generated-headers", "rspfile", "restat-upstream", "two-objects", "self-touch", "generator-split"],
        "C02" | "C03" => vec!["depfile-chain", "msvc-chain", "diamond", "two-outputs", "two-by-two", "generated-header", "two-generated-headers", "rspfile", "restat-upstream", "two-objects", "self-touch", "generator", "generator-f", "generator-split"],
        "C08" => vec!["depfile-chain", "two-outputs", "rspfile", "diamond"],
        "C09" => vec!["depfile-chain", "msvc-chain", "generated-header", "two-generated-headers", "two-outputs", "two-objects", "self-touch"],
        "C17" => vec!["generator", "generator-f", "generator-split"],
        "C19" if tier == Tier::Quick => vec!["depfile-chain"],
        "C19" => vec!["depfile-chain", "generator"],
        "C15" => vec!["depfile-chain"],
        _ => vec![],
    };
    // quick: depth 2, full alphabet in round one, builds + restat in round two
    let mut v: Vec<(String, u64)> = names.iter().map(|n| (format!("hist:{}:{}", n, tier.pick("2q", "2")), 16)).collect();
    if tier == Tier::Thorough {
        // thorough adds a depth-2 walk whose first round takes every
        // compatible pair of edits, and a depth-3 walk with single edits
        v.extend(names.iter().map(|n| (format!("hist:{}:2p", n), 16)));
        v.extend(names.iter().map(|n| (format!("hist:{}:3", n), 16)));
    }
    v
}

// ---------------------------------------------------------------------------

#[derive(Clone)]
pub struct Node {
    pub snap: Snapshot,
    pub sim: Sim,
    pub variant: usize,
    /// The invocation that led here left a state the model does not define
    /// (a restat that stopped with an error has adopted an unspecified subset
    /// of the steps): the history is not extended.
    pub unknown: bool,
}

fn opts(t: &Template, targets: &[String], j: usize, k: Option<usize>, adopt: bool) -> BuildOpts {
    BuildOpts {
        build_filename: if t.manifest_name == "build.ninja" { None } else { Some(t.manifest_name.clone()) },
        targets: targets.to_vec(),
        parallelism: j,
        failures_left: k,
        explain: false,
        adopt,
    }
}

/// The manifest files that are outputs of command steps (the fragment of a
/// split manifest and/or the main file).
fn generated_manifest_files(t: &Template, p: &Project) -> Vec<String> {
    let mut v = Vec::new();
    let mut names = vec![t.manifest_name.clone()];
    if let Some((f, _)) = &p.fragment {
        names.push(f.clone());
    }
    for n in names {
        if let Some(s) = p.producer(&n) {
            if !p.steps[s].phony {
                v.push(n);
            }
        }
    }
    v
}

pub fn initial(t: &Template) -> Node {
    exec::clear_dir();
    let mut sim = Sim::new(t.variants[0].clone());
    sim.create_sources();
    for h in &t.headers {
        sim.touch(h);
    }
    sim.write_manifest(&t.manifest_name);
    sim.reports = t.reports.clone();
    sim.restat_like = t.restat_like.clone();
    sim.skip_outputs = t.skip_outputs.clone();
    sim.side_touch = t.side_touch.clone();
    if t.generator {
        for f in generated_manifest_files(t, &t.variants[0]) {
            sim.generators.insert(
                f.clone(),
                Generator {
                    manifest_name: f,
                    next: t.variants[0].clone(),
                },
            );
        }
    }
    Node {
        snap: exec::snapshot(),
        sim,
        variant: 0,
        unknown: false,
    }
}

pub fn edit_alphabet(t: &Template, node: &Node) -> Vec<EditOp> {
    let p = node.sim.project();
    let mut v = Vec::new();
    for s in p.sources() {
        if s == "gen.in" && t.generator {
            continue; // covered by GenVariant
        }
        if node.sim.model.exists(&s) {
            v.push(EditOp::Touch(s));
        }
    }
    for h in &t.headers {
        if node.sim.model.exists(h) {
            if !p.sources().contains(h) {
                v.push(EditOp::Touch(h.clone()));
            }
            v.push(EditOp::RemoveHeader(h.clone()));
        }
    }
    for s in &t.removable_sources {
        if node.sim.model.exists(s) {
            v.push(EditOp::RemoveSource(s.clone()));
        }
    }
    for st in &p.steps {
        if st.phony {
            continue;
        }
        for o in st.all_outs() {
            if *o == t.manifest_name || p.fragment.as_ref().map(|f| f.0 == *o).unwrap_or(false) {
                continue;
            }
            if node.sim.model.exists(o) {
                v.push(EditOp::RemoveOut(o.clone()));
                v.push(EditOp::TouchOut(o.clone()));
            }
        }
    }
    for (key, options) in &t.report_options {
        for o in options {
            // A compiler cannot report a header that does not exist.
            if o.iter().any(|h| !node.sim.model.exists(&canon(h))) {
                continue;
            }
            // A generated header is only included by steps that are ordered
            // after its producer (anything else is an error in the project
            // that n2 reports as such).
            let Some(stp) = p.steps.iter().position(|s| s.outs[0] == *key) else {
                continue;
            };
            // A step that reports nothing (no depfile, no deps = msvc) must not
            // start reading undeclared files: the manifest would then simply be
            // incomplete, which is not n2's doing.
            if p.steps[stp].depfile.is_none() && !p.steps[stp].msvc && !o.is_empty() {
                continue;
            }
            if o.iter().any(|h| match p.producer(&canon(h)) {
                Some(q) => !p.ord_pred(stp).contains(&q),
                None => false,
            }) {
                continue;
            }
            if node.sim.reports.get(key) != Some(o) {
                v.push(EditOp::Reports(key.clone(), o.clone()));
            }
        }
    }
    for st in &p.steps {
        if st.depfile.is_some() && !node.sim.raw_depfile.contains_key(&st.outs[0]) {
            v.push(EditOp::DepfileGone(st.outs[0].clone()));
        }
    }
    for i in 0..t.variants.len() {
        if t.generator {
            v.push(EditOp::GenVariant(i));
        } else if i != node.variant {
            v.push(EditOp::Variant(i));
        }
    }
    v
}

pub fn apply_edit(t: &Template, node: &mut Node, op: &EditOp) {
    match op {
        EditOp::Touch(f) => node.sim.touch(f),
        EditOp::RemoveOut(f) => node.sim.remove(f),
        EditOp::TouchOut(f) => node.sim.touch_mtime(f),
        EditOp::RemoveSource(f) => node.sim.remove(f),
        EditOp::RemoveHeader(h) => {
            node.sim.remove(h);
            for r in node.sim.reports.values_mut() {
                r.retain(|x| canon(x) != *h);
            }
        }
        EditOp::Reports(k, r) => {
            node.sim.raw_depfile.remove(k);
            node.sim.reports.insert(k.clone(), r.clone());
            // What a compiler reports changes because the source changed.
            let src = node
                .sim
                .project()
                .steps
                .iter()
                .find(|s| s.outs[0] == *k)
                .and_then(|s| s.dirtying_ins().first().map(|x| (*x).clone()));
            if let Some(src) = src {
                if node.sim.project().producer(&src).is_none() {
                    node.sim.touch(&src);
                }
            }
        }
        EditOp::DepfileGone(k) => {
            node.sim.raw_depfile.insert(k.clone(), "<none>".into());
            node.sim.reports.insert(k.clone(), Vec::new());
            let stp = node.sim.project().steps.iter().find(|s| s.outs[0] == *k).cloned();
            if let Some(stp) = stp {
                if let Some(df) = &stp.depfile {
                    let _ = std::fs::remove_file(df);
                }
                if let Some(src) = stp.dirtying_ins().first() {
                    if node.sim.project().producer(src).is_none() {
                        let src = (*src).clone();
                        node.sim.touch(&src);
                    }
                }
            }
        }
        EditOp::Variant(i) => {
            node.variant = *i;
            node.sim.projects = vec![t.variants[*i].clone()];
            node.sim.create_sources();
            node.sim.write_manifest(&t.manifest_name);
            if let Some(r) = t.variant_reports.get(i) {
                for (k, v) in r {
                    // (a command that writes no depfile at all - DepfileGone in
                    // the same edit set - keeps reading nothing)
                    if node.sim.raw_depfile.get(k).map(|x| x.as_str()) == Some("<none>") {
                        continue;
                    }
                    if node.sim.reports.get(k) != Some(v) {
                        node.sim.reports.insert(k.clone(), v.clone());
                        // the source was edited along with the manifest
                        let src = node.sim.project().steps.iter().find(|s| s.outs[0] == *k).and_then(|s| s.dirtying_ins().first().map(|x| (*x).clone()));
                        if let Some(src) = src {
                            if node.sim.project().producer(&src).is_none() {
                                node.sim.touch(&src);
                            }
                        }
                    }
                }
            }
        }
        EditOp::GenVariant(i) => {
            let prev_variant = node.variant;
            node.variant = *i;
            node.sim.touch("gen.in");
            let next = t.variants[*i].clone();
            // Sources the new manifest refers to exist beforehand.
            for s in next.sources() {
                if !node.sim.model.exists(&s) {
                    node.sim.touch(&s);
                }
            }
            // What the rewired commands read changes with the text the
            // generator is about to write.
            // (only when a variant with other report settings is entered or
            // left, so that report edits made in between stay in force)
            if t.variant_reports.get(i) != t.variant_reports.get(&prev_variant) {
                if let Some(r) = t.variant_reports.get(i) {
                    for (k, v) in r {
                        node.sim.reports.insert(k.clone(), v.clone());
                    }
                }
            }
            for f in generated_manifest_files(t, &next) {
                node.sim.generators.insert(
                    f.clone(),
                    Generator {
                        manifest_name: f,
                        next: next.clone(),
                    },
                );
            }
        }
    }
}

pub fn inv_alphabet(t: &Template, round: usize, full: bool) -> Vec<Inv> {
    let mut v = vec![Inv::Build(vec![])];
    if round == 0 {
        v.push(Inv::BuildAllOrders);
    }
    if !full {
        // Depth-3 walks: a reduced alphabet in the first two rounds.
        v.push(Inv::Fail(t.fail_cmds[0].clone(), None));
        if round == 0 {
            v.push(Inv::Kill(1, true));
        }
        return v;
    }
    for tg in &t.targets {
        v.push(Inv::Build(tg.clone()));
    }
    for f in &t.fail_cmds {
        v.push(Inv::Fail(f.clone(), None));
    }
    v.push(Inv::Fail(t.fail_cmds[0].clone(), Some(1)));
    v.push(Inv::Kill(1, false));
    v.push(Inv::Kill(1, true));
    v.push(Inv::Kill(2, true));
    if round == 0 {
        v.push(Inv::Torn);
    }
    v.push(Inv::Restat(vec![]));
    // restat tolerates names it does not know (CMake passes such)
    v.push(Inv::Restat(vec!["nosuch.file".into()]));
    v
}

/// Last round of a depth-3 walk: builds only (what earlier rounds left
/// behind must be repaired by an ordinary build).
fn final_round_alphabet(t: &Template) -> Vec<Inv> {
    let mut v = vec![Inv::Build(vec![])];
    for tg in &t.targets {
        v.push(Inv::Build(tg.clone()));
    }
    v.push(Inv::Restat(vec![]));
    v
}

type Findings = Vec<(String, String)>;

/// Tags a from-scratch build of the current project and sources would give.
pub fn clean_tags(sim: &Sim) -> BTreeMap<String, u64> {
    let p = sim.project();
    let mut scratch = Model::default();
    for s in p.sources() {
        if let Some(i) = sim.model.files.get(&s) {
            scratch.files.insert(s, *i);
        }
    }
    // headers and other non-generated files
    for (f, i) in &sim.model.files {
        if p.producer(f).is_none() {
            scratch.files.insert(f.clone(), *i);
        }
    }
    let all: BTreeSet<usize> = (0..p.steps.len()).collect();
    let mut tags = BTreeMap::new();
    for stp in p.topo(&all) {
        let s = &p.steps[stp];
        if s.phony {
            continue;
        }
        let key = s.outs[0].clone();
        let reads: Vec<String> = sim
            .reports
            .get(&key)
            .map(|r| r.iter().map(|x| canon(x)).filter(|f| scratch.exists(f)).collect())
            .unwrap_or_default();
        for o in s.all_outs() {
            if let Some(g) = sim.generators.get(&key) {
                if *o == g.manifest_name {
                    continue;
                }
            }
            let tag = scratch.output_tag(s, o, &reads);
            scratch.files.insert(o.clone(), FileInfo { mtime: 0, tag });
            tags.insert(o.clone(), tag);
        }
    }
    tags
}

pub struct Run {
    pub result: BuildResult,
    pub sim: Sim,
    pub trace: Vec<Event>,
    pub thread_panics: usize,
}

pub fn run_once(t: &Template, sim: Sim, targets: &[String], j: usize, k: Option<usize>, adopt: bool, prefix: Vec<usize>, kill: Option<usize>) -> (Run, Vec<crate::exec::Point>) {
    run_once_fault(t, sim, targets, j, k, adopt, prefix, kill, None)
}

pub fn run_once_fault(t: &Template, sim: Sim, targets: &[String], j: usize, k: Option<usize>, adopt: bool, prefix: Vec<usize>, kill: Option<usize>, db_fault: Option<(usize, usize)>) -> (Run, Vec<crate::exec::Point>) {
    let out = exec::run_build(
        ExecConfig {
            model: Box::new(sim),
            prefix,
            explore_order: true,
            db_fault,
            max_waits: 300,
            record_counts: false,
            kill_after_waits: kill,
        },
        opts(t, targets, j, k, adopt),
    );
    let sim = take_sim(out.model);
    (
        Run {
            result: out.result,
            sim,
            trace: out.trace,
            thread_panics: out.thread_panics.len(),
        },
        out.points,
    )
}

pub fn wanted_of(t: &Template, sim: &Sim, targets: &[String]) -> BTreeSet<usize> {
    let p = sim.project();
    let has_gen = p.producer(&t.manifest_name).is_some();
    let tg: Vec<String> = targets.iter().map(|x| canon(x)).filter(|x| !(has_gen && *x == t.manifest_name)).collect();
    p.wanted(&tg, if has_gen { Some(&t.manifest_name) } else { None })
}

/// Judges one finished invocation against the reference model.
/// What the log on disk says now, step by step, against what the model says
/// n2 has been told to remember: a step has a loaded record iff the model has
/// one attached to it, and the remembered dependency list is the one of the
/// last recorded run (whatever the order in which commands happened to finish).
/// The log is inspected through the loading facade on a copy of its bytes
/// (opening a log may repair it).
pub fn audit_log(t: &Template, sim: &Sim) -> Findings {
    let mut f = Findings::new();
    let Ok(bytes) = std::fs::read(".n2_db") else {
        return f;
    };
    let manifest = t.manifest_name.clone();
    let loaded = crate::worker::catch(|| n2::verif::load_disk(&manifest));
    std::fs::write(".n2_db", &bytes).expect("restore log");
    let Ok(Ok((dump, hashes))) = loaded else {
        // (a log or manifest that does not load shows up in the next invocation)
        return f;
    };
    let p = sim.project();
    for (bi, b) in dump.builds.iter().enumerate() {
        let Some(step) = p.steps.iter().position(|s| s.all_outs().cloned().collect::<Vec<_>>() == b.outs) else {
            continue;
        };
        if p.steps[step].phony {
            continue;
        }
        match (sim.model.attached(p, step), hashes[bi]) {
            (Some(rec), Some(_)) => {
                if rec.deps != b.discovered_ins {
                    f.push((
                        "remembered-dependencies-differ".into(),
                        format!("step {}: the last recorded run reported {:?}, the log now yields {:?}", b.outs[0], rec.deps, b.discovered_ins),
                    ));
                }
            }
            (None, None) => {}
            (Some(rec), None) => f.push(("record-not-in-log".into(), format!("step {} was recorded (dependencies {:?}) but the log yields no record for it", b.outs[0], rec.deps))),
            // (the model keeps adopted steps apart from recorded runs, so a
            // record without a modelled run is not judged here)
            (None, Some(_)) => {}
        }
    }
    f
}

pub fn judge(t: &Template, before: &Sim, run: &Run, targets: &[String], expect_success: bool, adopt: bool) -> Findings {
    let mut f = Findings::new();
    let sim = &run.sim;
    let p = sim.project();
    match &run.result {
        BuildResult::Panicked(pr) => {
            f.push((pr.key.clone(), format!("n2 panicked: {} at {}", pr.message, pr.location)));
            return f;
        }
        BuildResult::Stopped(w) => {
            f.push((format!("stopped:{}", w), format!("the invocation could not continue: {}", w)));
            return f;
        }
        _ => {}
    }
    if run.thread_panics > 0 {
        f.push(("task-thread-panic".into(), "a task thread panicked".into()));
    }
    // C03: whatever ran was dirty according to the model at that moment.
    for r in sim.ran.iter().skip(before.ran.len()) {
        if r.step == usize::MAX {
            f.push(("ran-unknown-command".into(), format!("command {:?} is not in the manifest", r.cmdline)));
        } else if !r.model_dirty {
            f.push((
                "ran-although-up-to-date".into(),
                format!("{} was run although nothing it depends on changed ({})", r.cmdline, r.model_reason),
            ));
        }
    }
    if let BuildResult::Success(n) = &run.result {
        let succeeded = sim.ran.iter().skip(before.ran.len()).filter(|r| r.term == Term::Success).count();
        if *n != succeeded {
            f.push(("ran-count-wrong".into(), format!("the invocation reports {} tasks run; {} commands completed successfully", n, succeeded)));
        }
    }
    if adopt && sim.ran.len() > before.ran.len() {
        f.push(("restat-ran-commands".into(), "commands were run in restat (adopt) mode".into()));
    }
    if matches!(run.result, BuildResult::Success(_) | BuildResult::Failed) {
        f.extend(audit_log(t, sim));
    }
    let wanted = wanted_of(t, sim, targets);
    // Is a declared source missing somewhere in the wanted set?
    let missing_source = wanted.iter().find_map(|&s| match sim.model.is_dirty(p, s) {
        Dirty::MissingSource(n) => Some(n),
        _ => None,
    });
    let unknown_target = targets.iter().any(|x| {
        let c = canon(x);
        p.producer(&c).is_none() && !p.sources().contains(&c) && c != t.manifest_name
    });
    // A scripted compile fails when a header it includes does not exist.
    let compile_failed = sim.ran.iter().skip(before.ran.len()).any(|r| r.model_reason == "missing-include");
    if !expect_success || compile_failed {
        return f;
    }
    // n2's documented error: a remembered discovered dependency is a generated
    // file to which the step has no ordering path (any more).
    let no_path = wanted.iter().any(|&s| {
        sim.model.discovered(p, s).iter().any(|d| match p.producer(d) {
            Some(q) => !p.ord_pred(s).contains(&q),
            None => false,
        })
    }) || wanted.iter().any(|&s| {
        before.model.discovered(p, s).iter().any(|d| match p.producer(d) {
            Some(q) => !p.ord_pred(s).contains(&q),
            None => false,
        })
    });
    if no_path {
        if let BuildResult::Error(m) = &run.result {
            if m.contains("used generated file") {
                return f;
            }
        }
    }
    match (&run.result, &missing_source, unknown_target) {
        (BuildResult::Error(m), _, true) if m.contains("unknown path requested") => return f,
        (other, _, true) if !adopt => {
            f.push(("unknown-target-accepted".into(), format!("a target of {:?} occurs nowhere in the manifest, result {:?}", targets, other)));
            return f;
        }
        (BuildResult::Error(m), Some(n), _) if m.contains(&format!("input {} missing", n)) => return f,
        (BuildResult::Error(m), Some(_), _) if m.contains("missing") => return f,
        (other, Some(n), _) => {
            f.push(("missing-source-not-reported".into(), format!("source {} is missing but the result is {:?}", n, other)));
            return f;
        }
        (BuildResult::Success(_), None, _) => {}
        (other, None, _) => {
            f.push(("vanished-or-spurious-failure".into(), format!("no command fails and no source is missing, but the result is {:?}", other)));
            return f;
        }
    }
    if adopt {
        return f;
    }
    // C02: everything wanted is up to date and carries clean-build content.
    let clean = clean_tags(sim);
    // Not judged: steps that remember a dependency on a generated file they
    // are not ordered after (a race by construction, n2's documented error),
    // and, for content, steps adopted by restat and everything built from
    // them since.
    let racy = |s: usize| -> bool {
        let hit = |m: &Model| m.discovered(p, s).iter().any(|d| match p.producer(d) {
            Some(q) => !p.ord_pred(s).contains(&q),
            None => false,
        });
        hit(&sim.model) || hit(&before.model)
    };
    let adopted_upstream = |s: usize| -> bool {
        std::iter::once(s).chain(p.ord_pred(s).into_iter()).any(|q| sim.adopted.contains(&p.steps[q].outs[0]))
    };
    for &s in &wanted {
        let stp = &p.steps[s];
        if stp.phony {
            continue;
        }
        if racy(s) || p.ord_pred(s).iter().any(|&q| racy(q)) {
            continue;
        }
        if stp.all_outs().any(|o| sim.skip_outputs.contains(o)) {
            continue; // never recorded by construction
        }
        let d = sim.model.is_dirty(p, s);
        if d.is_dirty() {
            f.push(("skipped-although-out-of-date".into(), format!("{} was not rebuilt although it is out of date: {:?}", stp.outs[0], d)));
            continue;
        }
        if adopted_upstream(s) {
            continue;
        }
        for o in stp.all_outs() {
            if *o == t.manifest_name || p.fragment.as_ref().map(|f| f.0 == *o).unwrap_or(false) {
                continue;
            }
            match (sim.model.files.get(o), clean.get(o)) {
                (Some(have), Some(want)) if have.tag != *want => f.push((
                    "stale-output".into(),
                    format!("{} has content {} but a clean build of the current sources gives {}", o, have.tag, want),
                )),
                (None, _) => f.push(("output-missing-after-success".into(), format!("{} does not exist after a successful build", o))),
                _ => {}
            }
        }
    }
    f
}

pub struct Walk<'a> {
    pub t: &'a Template,
    pub prop: String,
    pub job: String,
    pub depth: usize,
    pub max_edit_set: usize,
    /// Pairs-only walk: round one takes only edit pairs, round two the
    /// reduced alphabet (the single-edit walk is a separate job).
    pub pairs_only: bool,
    /// The walk starts from a never-built tree: the first round has no edits
    /// (edits before the first build ever are meaningless).
    pub fresh_root: bool,
    /// Quick form: the last round uses the reduced (builds + restat) alphabet.
    pub reduced_last: bool,
    pub res: &'a mut ShardResult,
    pub path: Vec<Value>,
}

impl<'a> Walk<'a> {
    fn report(&mut self, findings: Findings, what: &str) {
        const C03_KEYS: [&str; 4] = ["ran-although-up-to-date", "repeated-build-not-a-no-op", "restat-ran-commands", "ran-count-wrong"];
        for (k, d) in findings {
            // C02 and C03 share the walk; each reports its own clauses.
            let is_c03 = C03_KEYS.contains(&k.as_str());
            match self.prop.as_str() {
                "C02" if is_c03 => continue,
                "C03" if !is_c03 && !k.starts_with("panic") => continue,
                "C19" if k != "ran-count-wrong" && !k.starts_with("panic") => continue,
                _ => {}
            }
            let path = self.path.clone();
            let job = self.job.clone();
            let tn = self.t.name;
            self.res.violation(
                &k,
                || format!("{} [{}]\nhistory: {}", d, what, serde_json::to_string(&path).unwrap_or_default()),
                || json!({"job": job, "template": tn, "path": path}),
            );
        }
    }

    /// Runs one invocation from `node`; returns the successor node.
    pub fn invoke(&mut self, node: &Node, inv: &Inv) -> Node {
        exec::restore(&node.snap);
        let t = self.t;
        let before = node.sim.clone();
        let mut next_sim;
        let mut ok_build: Option<Vec<String>> = None;
        let mut restat_stopped = false;
        match inv {
            Inv::Build(tg) => {
                let (run, _) = run_once(t, before.clone(), tg, 1, None, false, vec![], None);
                self.count(&run);
                let f = judge(t, &before, &run, tg, true, false);
                self.report(f, "build");
                if matches!(run.result, BuildResult::Success(_)) {
                    ok_build = Some(tg.clone());
                }
                next_sim = run.sim;
            }
            Inv::BuildAllOrders => {
                // Explore every order at -j2 from this state; continue from
                // the default order.
                let snap = node.snap.clone();
                let mut stack: Vec<Vec<usize>> = vec![vec![]];
                let mut first: Option<Run> = None;
                let mut n = 0;
                while let Some(prefix) = stack.pop() {
                    exec::restore(&snap);
                    let (run, points) = run_once(t, before.clone(), &[], 2, None, false, prefix.clone(), None);
                    self.count(&run);
                    n += 1;
                    let f = judge(t, &before, &run, &[], true, false);
                    self.report(f, &format!("build -j2 order {:?}", prefix));
                    for i in prefix.len()..points.len() {
                        for alt in 1..points[i].arity {
                            let mut p: Vec<usize> = points[..i].iter().map(|x| x.chosen).collect();
                            p.push(alt);
                            stack.push(p);
                        }
                    }
                    if first.is_none() {
                        first = Some(run);
                        // keep the tree of the default order
                        let keep = exec::snapshot();
                        let _ = keep;
                    }
                    if n > 200 {
                        break;
                    }
                }
                // Re-run the default order so that the tree on disk matches.
                exec::restore(&snap);
                let (run, _) = run_once(t, before.clone(), &[], 2, None, false, vec![], None);
                if matches!(run.result, BuildResult::Success(_)) {
                    ok_build = Some(vec![]);
                }
                next_sim = run.sim;
            }
            Inv::Fail(cmd, k) => {
                let mut s = before.clone();
                s.outcomes.insert(cmd.clone(), Outcome::Fail);
                let (run, _) = run_once(t, s, &[], 1, *k, false, vec![], None);
                self.count(&run);
                let failed = run.sim.ran.iter().skip(before.ran.len()).any(|r| r.term != Term::Success);
                // If the failing command was not needed the build is an
                // ordinary successful one.
                let f = judge(t, &before, &run, &[], !failed, false);
                self.report(f, "build with failing command");
                if failed && matches!(run.result, BuildResult::Success(_)) {
                    self.report(vec![("success-despite-failure".into(), format!("{} failed but the build reported success", cmd))], "build with failing command");
                }
                next_sim = run.sim;
                next_sim.outcomes.clear();
            }
            Inv::Kill(n, partial) => {
                let (run, _) = run_once(t, before.clone(), &[], 2, None, false, vec![], Some(*n));
                self.count(&run);
                let f = judge(t, &before, &run, &[], false, false);
                self.report(f, "killed build");
                next_sim = run.sim;
                if matches!(run.result, BuildResult::Crashed) && *partial {
                    // Commands that were running leave fresh garbage.
                    let mut running: Vec<String> = Vec::new();
                    for ev in &run.trace {
                        match ev {
                            Event::Start { cmdline, .. } => running.push(cmdline.clone()),
                            Event::Finished { build, .. } => {
                                let c = run.trace.iter().find_map(|x| match x {
                                    Event::Start { build: b, cmdline } if b == build => Some(cmdline.clone()),
                                    _ => None,
                                });
                                if let Some(c) = c {
                                    running.retain(|x| *x != c);
                                }
                            }
                            _ => {}
                        }
                    }
                    for c in running {
                        if let Some(st) = next_sim.project().step_by_cmdline(&c) {
                            let outs: Vec<String> = next_sim.project().steps[st].all_outs().cloned().collect();
                            for o in outs {
                                if o == t.manifest_name || o.ends_with(".ninja") {
                                    continue;
                                }
                                let tick = next_sim.model.tick();
                                exec::write_file(&o, b"garbage", tick);
                                next_sim.model.files.insert(o, FileInfo { mtime: tick, tag: 1 });
                            }
                        }
                    }
                }
            }
            Inv::Torn => {
                // Learn the log writes of this build, then repeat it with the
                // last write cut in half.
                let (base, _) = run_once_fault(t, before.clone(), &[], 1, None, false, vec![], None, None);
                let writes = crate::eng_crash::writes_of(&base.trace);
                exec::restore(&node.snap);
                if writes.is_empty() {
                    // nothing is logged by this build: it is an ordinary one
                    let (run, _) = run_once(t, before.clone(), &[], 1, None, false, vec![], None);
                    self.count(&run);
                    let f = judge(t, &before, &run, &[], true, false);
                    self.report(f, "build");
                    next_sim = run.sim;
                } else {
                    let i = writes.len() - 1;
                    let k = writes[i].len / 2;
                    let (run, _) = run_once_fault(t, before.clone(), &[], 1, None, false, vec![], None, Some((i, k)));
                    self.count(&run);
                    let f = judge(t, &before, &run, &[], false, false);
                    self.report(f, "build that died while appending to the log");
                    next_sim = run.sim;
                    if matches!(run.result, BuildResult::Crashed) {
                        crate::eng_crash::correct_model(&mut next_sim, &writes, i, k);
                    }
                }
            }
            Inv::Restat(tg) => {
                let (run, _) = run_once(t, before.clone(), tg, 1, None, true, vec![], None);
                self.count(&run);
                restat_stopped = !matches!(run.result, BuildResult::Success(_));
                let f = judge(t, &before, &run, tg, true, true);
                self.report(f, "restat");
                next_sim = run.sim;
                if matches!(run.result, BuildResult::Success(_)) {
                    // The model adopts every wanted step whose files all exist.
                    let p = next_sim.project().clone();
                    let mut wanted = wanted_of(t, &next_sim, tg);
                    // The regeneration phase runs in adopt mode as well.
                    if p.producer(&t.manifest_name).is_some() {
                        wanted.extend(p.closure(&[t.manifest_name.clone()]));
                    }
                    for s in p.topo(&wanted) {
                        if next_sim.model.is_dirty(&p, s).is_dirty() {
                            next_sim.model.adopt(&p, s);
                            next_sim.adopted.insert(p.steps[s].outs[0].clone());
                        }
                    }
                    // Restat declares the present contents correct: from now on
                    // they are what a clean build is compared with.
                    let clean = clean_tags(&next_sim);
                    for s in p.topo(&wanted) {
                        for o in p.steps[s].all_outs() {
                            if let (Some(info), Some(tag)) = (next_sim.model.files.get(o).copied(), clean.get(o)) {
                                next_sim.model.files.insert(o.clone(), FileInfo { mtime: info.mtime, tag: *tag });
                            }
                        }
                    }
                    ok_build = Some(tg.clone());
                }
            }
        }
        // After a successful invocation an identical one does nothing (for
        // restat: a following build runs only what the model still calls dirty).
        if let Some(tg) = ok_build {
            let is_restat = matches!(inv, Inv::Restat(_));
            let (run2, _) = run_once(t, next_sim.clone(), &tg, 1, None, false, vec![], None);
            self.count(&run2);
            let ran2 = run2.sim.ran.len() - next_sim.ran.len();
            let f = judge(t, &next_sim, &run2, &tg, true, false);
            self.report(f, if is_restat { "build after restat" } else { "identical repeat" });
            if !is_restat {
                // When the model calls everything clean the repeat is a no-op.
                let p = next_sim.project();
                let all_clean = wanted_of(t, &next_sim, &tg).iter().all(|&s| !next_sim.model.is_dirty(p, s).is_dirty() || p.steps[s].phony);
                if all_clean && !matches!(run2.result, BuildResult::Success(0)) && matches!(run2.result, BuildResult::Success(_)) {
                    self.report(
                        vec![(
                            "repeated-build-not-a-no-op".into(),
                            format!("an identical invocation right after a successful one ran {} commands and returned {:?}", ran2, run2.result),
                        )],
                        "repeat",
                    );
                }
            }
            next_sim = run2.sim;
        }
        // Later rounds start from the manifest generation now on disk.
        let last = next_sim.project().clone();
        next_sim.projects = vec![last];
        Node {
            snap: exec::snapshot(),
            sim: next_sim,
            variant: node.variant,
            unknown: restat_stopped,
        }
    }

    fn count(&mut self, run: &Run) {
        self.res.evaluations += 1;
        self.res.transitions += 1;
        let class = match &run.result {
            BuildResult::Success(n) => format!("success-ran-{}", (*n).min(5)),
            BuildResult::Failed => "failed".into(),
            BuildResult::Error(m) => format!("error:{}", crate::eng_total::class_of(m)),
            BuildResult::Crashed => "killed".into(),
            BuildResult::Stopped(w) => format!("stopped:{}", w),
            BuildResult::Panicked(p) => p.key.clone(),
        };
        self.res.outcome(&class);
        if run.sim.projects.len() > 1 {
            self.res.count("invocations_with_reload", 1);
        }
    }

    pub fn walk(&mut self, node: &Node, round: usize, shard: Option<(u64, u64)>, marker: &crate::worker::Marker) {
        if round == self.depth {
            return;
        }
        self.res.states += 1;
        self.res.max_depth = self.res.max_depth.max(round as u64 + 1);
        let edits = edit_alphabet(self.t, node);
        // edit sets: empty, singles, (pairs)
        let mut sets: Vec<Vec<EditOp>> = vec![vec![]];
        for e1 in &edits {
            sets.push(vec![e1.clone()]);
        }
        if self.pairs_only && round == 0 {
            sets.clear();
        }
        if self.fresh_root && round == 0 {
            sets = vec![vec![]];
        }
        if self.max_edit_set >= 2 && round == 0 && self.depth <= 2 {
            for (i, e1) in edits.iter().enumerate() {
                for e2 in edits.iter().skip(i + 1) {
                    if compatible(e1, e2) {
                        sets.push(vec![e1.clone(), e2.clone()]);
                    }
                }
            }
        }
        let invs = if (self.pairs_only || self.reduced_last) && round + 1 == self.depth && round > 0 {
            final_round_alphabet(self.t)
        } else if self.depth <= 2 {
            inv_alphabet(self.t, round, true)
        } else if round + 1 == self.depth {
            final_round_alphabet(self.t)
        } else {
            inv_alphabet(self.t, round, false)
        };
        let mut child = 0u64;
        for set in &sets {
            for inv in &invs {
                child += 1;
                if let Some((s, n)) = shard {
                    if child % n != s {
                        continue;
                    }
                }
                let mut n2 = node.clone();
                exec::restore(&node.snap);
                for op in set {
                    apply_edit(self.t, &mut n2, op);
                }
                n2.snap = exec::snapshot();
                self.path.push(json!({"edits": format!("{:?}", set), "inv": format!("{:?}", inv)}));
                marker.set(child, format!("{} {}", self.t.name, serde_json::to_string(&self.path).unwrap_or_default()).as_bytes());
                let before_v = self.res.violation_count;
                let next = self.invoke(&n2, inv);
                if self.res.violation_count == before_v {
                    self.res.nontrivial += 1;
                }
                if self.res.samples.is_empty() || self.res.evaluations % 5003 == 0 {
                    let p = self.path.clone();
                    let tn = self.t.name;
                    self.res.sample(|| json!({"template": tn, "history": p}));
                }
                // Do not extend histories that already violated: one report
                // per root cause is enough and later rounds would only echo it.
                if self.res.violation_count == before_v && !next.unknown {
                    self.walk(&next, round + 1, None, marker);
                }
                self.path.pop();
            }
        }
    }
}

fn compatible(a: &EditOp, b: &EditOp) -> bool {
    // Two manifest replacements or two report settings of one step do not
    // commute; everything else touches different files.
    match (a, b) {
        (EditOp::Variant(_), EditOp::Variant(_)) => false,
        (EditOp::GenVariant(_), EditOp::GenVariant(_)) => false,
        (EditOp::Reports(x, _), EditOp::Reports(y, _)) => x != y,
        (EditOp::Reports(x, _), EditOp::DepfileGone(y)) | (EditOp::DepfileGone(x), EditOp::Reports(y, _)) => x != y,
        (EditOp::RemoveOut(x), EditOp::TouchOut(y)) | (EditOp::TouchOut(x), EditOp::RemoveOut(y)) => x != y,
        (EditOp::Touch(x), EditOp::RemoveHeader(y)) | (EditOp::RemoveHeader(x), EditOp::Touch(y)) => x != y,
        _ => true,
    }
}

pub fn run(ctx: &mut Ctx) -> ShardResult {
    let mut res = ShardResult::default();
    exec::install_hooks();
    let job = ctx.job.clone();
    let parts: Vec<&str> = job.split(':').collect();
    let tname = parts[1];
    let pairs_only = parts[2].ends_with('p');
    let reduced_last = parts[2].ends_with('q');
    let depth: usize = parts[2].trim_end_matches(['p', 'q']).parse().expect("depth");
    let all = templates();
    let t = all.iter().find(|t| t.name == tname).expect("template");
    let mut w = Walk {
        t,
        prop: ctx.prop.clone(),
        job: job.clone(),
        depth,
        max_edit_set: if pairs_only { 2 } else { 1 },
        pairs_only,
        fresh_root: true,
        reduced_last,
        res: &mut res,
        path: Vec::new(),
    };
    let root = initial(t);
    if let Some(case) = ctx.replay.clone() {
        // Replay: follow the recorded path by matching the printed edits/inv.
        let mut node = root;
        let mut path = case["path"].as_array().cloned().unwrap_or_default();
        if path.first().map(|p| p.get("root").is_some()).unwrap_or(false) {
            w.path.push(path.remove(0));
            node = built_root(t, &node);
        }
        for (round, stepv) in path.iter().enumerate() {
            let edits = edit_alphabet(t, &node);
            let mut sets: Vec<Vec<EditOp>> = vec![vec![]];
            for e1 in &edits {
                sets.push(vec![e1.clone()]);
            }
            for (i, e1) in edits.iter().enumerate() {
                for e2 in edits.iter().skip(i + 1) {
                    sets.push(vec![e1.clone(), e2.clone()]);
                }
            }
            let want_e = stepv["edits"].as_str().unwrap_or("");
            let want_i = stepv["inv"].as_str().unwrap_or("");
            let set = sets.into_iter().find(|s| format!("{:?}", s) == want_e).expect("edit set of the recorded path");
            let mut invs = inv_alphabet(t, round, true);
            invs.extend(inv_alphabet(t, round, false));
            invs.extend(final_round_alphabet(t));
            invs.push(Inv::BuildAllOrders);
            let inv = invs.into_iter().find(|i| format!("{:?}", i) == want_i).expect("invocation of the recorded path");
            let mut n2 = node.clone();
            exec::restore(&node.snap);
            for op in &set {
                apply_edit(t, &mut n2, op);
            }
            n2.snap = exec::snapshot();
            w.path.push(stepv.clone());
            node = w.invoke(&n2, &inv);
        }
        return res;
    }
    // Two roots: the never-built tree (no edits before the first invocation)
    // and the fully built tree.
    if !pairs_only {
        w.walk(&root, 0, Some((ctx.shard, ctx.nshards)), &ctx.marker);
    }
    let built = built_root(t, &root);
    w.fresh_root = false;
    w.path.push(json!({"root": "built"}));
    w.walk(&built, 0, Some((ctx.shard, ctx.nshards)), &ctx.marker);
    res
}

/// The initial tree after one successful full build.
fn built_root(t: &Template, root: &Node) -> Node {
    exec::restore(&root.snap);
    let (run, _) = run_once(t, root.sim.clone(), &[], 1, None, false, vec![], None);
    let mut sim = run.sim;
    let last = sim.project().clone();
    sim.projects = vec![last];
    Node {
        snap: exec::snapshot(),
        sim,
        variant: root.variant,
        unknown: false,
    }
}

pub fn case_from_marker(job: &str, bytes: &[u8]) -> Value {
    let text = String::from_utf8_lossy(bytes).to_string();
    let (tn, path) = text.split_once(' ').unwrap_or((&text, "[]"));
    json!({"job": job, "template": tn, "path": serde_json::from_str::<Value>(path).unwrap_or(json!([]))})
}
