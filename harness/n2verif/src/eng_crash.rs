//! C07: every torn write of the build log.  For each history, the last build
//! is re-run once per (db write index, number of bytes persisted): the write
//! persists only that prefix and the n2 "process" dies.  The following
//! invocation must start normally, rebuild exactly what lost its record, and
//! leave a log every later invocation can load; optionally a second crash is
//! injected into the recovery invocation.

use crate::eng_hist::{self, apply_edit, initial, judge, run_once_fault, EditOp, Node, Template};
use crate::exec::{self, BuildResult, Event, Term};
use crate::sim::Sim;
use crate::worker::{Ctx, Tier};
use serde_json::{json, Value};
use vcore::report::ShardResult;

pub fn jobs(tier: Tier) -> Vec<(String, u64)> {
    let depth = tier.pick(1, 2);
    let mut v = Vec::new();
    for h in 0..histories().len() {
        v.push((format!("crash:{}:{}", h, depth), 16));
    }
    v
}

pub struct History {
    pub template: &'static str,
    /// Rounds before the crashing build: edits then a full build.
    pub prefix: Vec<Vec<EditOp>>,
    /// Edits right before the crashing build.
    pub last_edits: Vec<EditOp>,
    pub j: usize,
}

pub fn histories() -> Vec<History> {
    vec![
        // h1: first build of a fresh tree (log is created)
        History { template: "depfile-chain", prefix: vec![], last_edits: vec![], j: 1 },
        History { template: "two-outputs", prefix: vec![], last_edits: vec![], j: 2 },
        // h2: build, touch, rebuild (appending to a loaded log)
        History { template: "depfile-chain", prefix: vec![vec![]], last_edits: vec![EditOp::Touch("src.c".into())], j: 1 },
        History { template: "two-outputs", prefix: vec![vec![]], last_edits: vec![EditOp::Touch("p.in".into())], j: 1 },
        // h3: build, manifest edit that renumbers files and steps, rebuild
        History { template: "depfile-chain", prefix: vec![vec![]], last_edits: vec![EditOp::Variant(2), EditOp::Touch("hdr.h".into())], j: 1 },
        History { template: "two-outputs", prefix: vec![vec![]], last_edits: vec![EditOp::Variant(1)], j: 1 },
        // h4: new discovered dependency gets a path record in the same build
        History { template: "depfile-chain", prefix: vec![vec![]], last_edits: vec![EditOp::Reports("obj".into(), vec!["hdr.h".into(), "hdr2.h".into()])], j: 1 },
        // h6: a log longer than the reader's 8 KiB buffer; the crashing build
        // appends six ~210-byte path records and a build record across the
        // 8192-byte mark
        History { template: "wide-headers", prefix: vec![vec![]], last_edits: vec![EditOp::Reports("obj".into(), eng_hist::wide_headers(42))], j: 1 },
        // h5: three builds, the log has superseded records
        History { template: "diamond", prefix: vec![vec![], vec![EditOp::Touch("a.in".into())]], last_edits: vec![EditOp::Touch("b.in".into()), EditOp::Touch("c.in".into())], j: 2 },
    ]
}

pub struct WriteInfo {
    pub len: usize,
    /// Index of the last write issued for the same finished command.
    group_last: usize,
    /// Command whose completion caused this write (None: log creation).
    cmd: Option<String>,
}

pub fn writes_of(trace: &[Event]) -> Vec<WriteInfo> {
    let mut out: Vec<WriteInfo> = Vec::new();
    let mut cur_cmd: Option<String> = None;
    let mut group_start = 0usize;
    for ev in trace {
        match ev {
            Event::Finished { build, term } => {
                // close the previous group
                let last = out.len().saturating_sub(1);
                for w in out.iter_mut().skip(group_start) {
                    w.group_last = last;
                }
                group_start = out.len();
                cur_cmd = if *term == Term::Success {
                    trace.iter().find_map(|x| match x {
                        Event::Start { build: b, cmdline } if b == build => Some(cmdline.clone()),
                        _ => None,
                    })
                } else {
                    None
                };
            }
            Event::DbWrite { len, .. } => out.push(WriteInfo {
                len: *len,
                group_last: 0,
                cmd: cur_cmd.clone(),
            }),
            _ => {}
        }
    }
    let last = out.len().saturating_sub(1);
    for w in out.iter_mut().skip(group_start) {
        w.group_last = last;
    }
    out
}

/// After a crash at write `i` persisting `k` bytes: the model forgets the
/// record of the command whose completion was being logged, unless its
/// record (the last write of the group) was persisted completely.
pub fn correct_model(sim: &mut Sim, writes: &[WriteInfo], i: usize, k: usize) {
    let w = &writes[i];
    if let Some(cmd) = &w.cmd {
        let complete = i == w.group_last && k >= w.len;
        if !complete {
            // The model appended the record when the command finished.
            let p = sim.project().clone();
            if let Some(step) = p.step_by_cmdline(cmd) {
                let outs: Vec<String> = p.steps[step].all_outs().cloned().collect();
                if let Some(pos) = sim.model.log.iter().rposition(|r| r.outs == outs) {
                    sim.model.log.remove(pos);
                }
            }
        }
    }
}

fn describe(h: usize, i: usize, k: usize, second: Option<(usize, usize)>, switch: Option<usize>) -> Value {
    json!({"history": h, "write": i, "bytes": k, "second": second.map(|s| json!([s.0, s.1])), "switch": switch})
}

struct Crasher<'a> {
    t: &'a Template,
    job: String,
    h: usize,
    res: &'a mut ShardResult,
    /// Set while recovering under another manifest variant.
    switch: Option<usize>,
}

impl<'a> Crasher<'a> {
    fn fail(&mut self, key: &str, detail: String, i: usize, k: usize, second: Option<(usize, usize)>) {
        let job = self.job.clone();
        let h = self.h;
        let switch = self.switch;
        self.res.violation(key, || detail, || json!({"job": job, "case": describe(h, i, k, second, switch)}));
    }

    /// Recovery after a crash: the state `sim` (already corrected) on disk.
    /// Returns the state after recovery if everything held.
    fn recover(&mut self, sim: &Sim, j: usize, i: usize, k: usize, second: Option<(usize, usize)>, what: &str) -> Option<Sim> {
        // What n2 loads must be what the model says survived.
        let t = self.t;
        let manifest = t.manifest_name.clone();
        // Opening the log repairs it (a torn tail is cut off), so this
        // inspection works on the file and then puts the crashed bytes back:
        // the recovery invocation below must meet the log as the crash left it.
        let crashed_log = std::fs::read(".n2_db").ok();
        let loaded = crate::worker::catch(|| n2::verif::load_disk(&manifest));
        match &crashed_log {
            Some(bytes) => std::fs::write(".n2_db", bytes).expect("restore crashed log"),
            None => {
                let _ = std::fs::remove_file(".n2_db");
            }
        }
        match loaded {
            Err(p) => {
                self.fail(&p.key(), format!("{}: loading after the crash panicked: {} at {}", what, p.message, p.location), i, k, second);
                return None;
            }
            Ok(Err(e)) => {
                self.fail("log-unloadable-after-crash", format!("{}: the next invocation cannot start: {}", what, e), i, k, second);
                return None;
            }
            Ok(Ok((dump, hashes))) => {
                let p = sim.project();
                for (bi, b) in dump.builds.iter().enumerate() {
                    let Some(step) = p.steps.iter().position(|s| s.all_outs().cloned().collect::<Vec<_>>() == b.outs) else {
                        continue;
                    };
                    if p.steps[step].phony {
                        continue;
                    }
                    let survived = sim.model.attached(p, step);
                    match (survived, hashes[bi]) {
                        (Some(rec), Some(_)) => {
                            if rec.deps != b.discovered_ins {
                                self.fail(
                                    "surviving-record-with-other-content",
                                    format!("{}: step {} was recorded with dependencies {:?}, the loaded record has {:?}", what, b.outs[0], rec.deps, b.discovered_ins),
                                    i,
                                    k,
                                    second,
                                );
                                return None;
                            }
                        }
                        (None, None) => {}
                        (Some(_), None) => {
                            self.fail("intact-record-lost", format!("{}: the record of {} was written completely before the crash but is not loaded", what, b.outs[0]), i, k, second);
                            return None;
                        }
                        (None, Some(_)) => {
                            self.fail("record-attributed-to-wrong-step", format!("{}: {} has a loaded record although none survived for it", what, b.outs[0]), i, k, second);
                            return None;
                        }
                    }
                }
            }
        }
        let (run, _) = run_once_fault(t, sim.clone(), &[], j, None, false, vec![], None, None);
        self.res.evaluations += 1;
        self.res.transitions += 1;
        let f = judge(t, sim, &run, &[], true, false);
        if !f.is_empty() {
            for (key, d) in f {
                self.fail(&format!("recovery:{}", key), format!("{}: {}", what, d), i, k, second);
            }
            return None;
        }
        // And the log it leaves is loadable: a third invocation does nothing.
        let (run3, _) = run_once_fault(t, run.sim.clone(), &[], j, None, false, vec![], None, None);
        self.res.evaluations += 1;
        match &run3.result {
            BuildResult::Success(0) => {}
            other => {
                self.fail("third-invocation-not-a-no-op", format!("{}: after recovery another invocation gave {:?} and ran {:?}", what, other, run3.sim.ran.iter().skip(run.sim.ran.len()).map(|r| r.cmdline.clone()).collect::<Vec<_>>()), i, k, second);
                return None;
            }
        }
        Some(run.sim)
    }
}

pub fn run(ctx: &mut Ctx) -> ShardResult {
    let mut res = ShardResult::default();
    exec::install_hooks();
    let job = ctx.job.clone();
    let parts: Vec<&str> = job.split(':').collect();
    let h: usize = parts[1].parse().expect("history");
    let depth: usize = parts[2].parse().expect("depth");
    let hs = histories();
    let hist = &hs[h];
    let all = eng_hist::templates();
    let t = all.iter().find(|t| t.name == hist.template).expect("template");

    // Build the state before the crashing invocation.
    let mut node: Node = initial(t);
    for edits in &hist.prefix {
        for op in edits {
            apply_edit(t, &mut node, op);
        }
        let (run, _) = run_once_fault(t, node.sim.clone(), &[], 1, None, false, vec![], None, None);
        if !matches!(run.result, BuildResult::Success(_)) {
            res.violation("machinery:prefix-build-failed", || format!("{:?}", run.result), || json!({"job": job}));
            return res;
        }
        node.sim = run.sim;
        let last = node.sim.project().clone();
        node.sim.projects = vec![last];
    }
    for op in &hist.last_edits {
        apply_edit(t, &mut node, op);
    }
    node.snap = exec::snapshot();
    let before = node.sim.clone();

    // Baseline: the crashing build without a crash, to learn its writes.
    let (base, _) = run_once_fault(t, before.clone(), &[], hist.j, None, false, vec![], None, None);
    let writes = writes_of(&base.trace);
    if writes.is_empty() {
        res.violation("machinery:no-db-writes", || "baseline build wrote nothing".into(), || json!({"job": job}));
        return res;
    }
    res.count("db_writes_in_history", writes.len() as u64);

    let replay_case = ctx.replay.as_ref().map(|c| c["case"].clone());
    let mut cr = Crasher {
        t,
        job: job.clone(),
        h,
        res: &mut res,
        switch: None,
    };
    let mut idx = 0u64;
    for i in 0..writes.len() {
        for k in 0..=writes[i].len {
            idx += 1;
            match &replay_case {
                Some(c) => {
                    if c["write"].as_u64() != Some(i as u64) || c["bytes"].as_u64() != Some(k as u64) {
                        continue;
                    }
                }
                None => {
                    if idx % ctx.nshards != ctx.shard {
                        continue;
                    }
                }
            }
            ctx.marker.set(idx, format!("h{} write {} bytes {}", h, i, k).as_bytes());
            exec::restore(&node.snap);
            let (crashed, _) = run_once_fault(t, before.clone(), &[], hist.j, None, false, vec![], None, Some((i, k)));
            cr.res.evaluations += 1;
            cr.res.states += 1;
            cr.res.transitions += 1;
            match &crashed.result {
                BuildResult::Crashed => {}
                other => {
                    cr.fail("machinery:crash-did-not-happen", format!("fault ({}, {}) did not stop the build: {:?}", i, k, other), i, k, None);
                    continue;
                }
            }
            let mut sim = crashed.sim;
            correct_model(&mut sim, &writes, i, k);
            let after_crash = exec::snapshot();
            cr.res.outcome(if k == 0 {
                "nothing-of-the-write-persisted"
            } else if k == writes[i].len {
                "whole-write-persisted"
            } else if k == 1 {
                "one-byte-persisted"
            } else {
                "partial-write-persisted"
            });
            let what = format!("crash at write {} ({} of {} bytes, logging {:?})", i, k, writes[i].len, writes[i].cmd);
            let want_second: Option<Option<(usize, usize)>> = replay_case.as_ref().map(|c| {
                c["second"].as_array().map(|a| (a[0].as_u64().unwrap_or(0) as usize, a[1].as_u64().unwrap_or(0) as usize))
            });
            let want_switch: Option<Option<usize>> = replay_case.as_ref().map(|c| c["switch"].as_u64().map(|v| v as usize));
            if want_second.map(|s| s.is_none()).unwrap_or(true) && want_switch.map(|s| s.is_none()).unwrap_or(true) {
                if cr.recover(&sim, hist.j, i, k, None, &what).is_some() {
                    cr.res.nontrivial += 1;
                }
            }
            // The manifest is edited between the crash and the next invocation
            // (each other variant of the template), so that records of the log -
            // possibly the torn one - belong to steps that no longer exist; then
            // it is edited back.  Every invocation on the way must load the log
            // and run exactly what the model calls dirty.
            if want_second.map(|s| s.is_none()).unwrap_or(true) {
                for v in 0..t.variants.len() {
                    if v == node.variant {
                        continue;
                    }
                    if let Some(Some(w)) = want_switch {
                        if w != v {
                            continue;
                        }
                    } else if replay_case.is_some() {
                        continue;
                    }
                    exec::restore(&after_crash);
                    let mut n2 = Node {
                        snap: after_crash.clone(),
                        sim: sim.clone(),
                        variant: node.variant,
                        unknown: false,
                    };
                    apply_edit(t, &mut n2, &EditOp::Variant(v));
                    cr.switch = Some(v);
                    let what_v = format!("{}; then the manifest is replaced by variant {}", what, v);
                    if let Some(after) = cr.recover(&n2.sim, hist.j, i, k, None, &what_v) {
                        let last = after.project().clone();
                        let mut s3 = after;
                        s3.projects = vec![last];
                        let mut n3 = Node {
                            snap: exec::snapshot(),
                            sim: s3,
                            variant: v,
                            unknown: false,
                        };
                        apply_edit(t, &mut n3, &EditOp::Variant(node.variant));
                        let what_b = format!("{} and, after a build, edited back", what_v);
                        if cr.recover(&n3.sim, hist.j, i, k, None, &what_b).is_some() {
                            cr.res.nontrivial += 1;
                            cr.res.count("recoveries_under_changed_manifest", 1);
                        }
                    }
                    cr.switch = None;
                }
            }
            if depth >= 2 || want_second.map(|s| s.is_some()).unwrap_or(false) {
                // Second crash during the recovery invocation.
                exec::restore(&after_crash);
                let (rec_base, _) = run_once_fault(t, sim.clone(), &[], hist.j, None, false, vec![], None, None);
                let w2 = writes_of(&rec_base.trace);
                for i2 in 0..w2.len() {
                    // every byte count is explored for the first crash; for the
                    // second one the boundary counts of each write.
                    let mut ks: Vec<usize> = vec![0, 1, 2, 3, w2[i2].len / 2, w2[i2].len.saturating_sub(1), w2[i2].len];
                    ks.sort();
                    ks.dedup();
                    for k2 in ks {
                        if k2 > w2[i2].len {
                            continue;
                        }
                        if let Some(Some(s)) = want_second {
                            if s != (i2, k2) {
                                continue;
                            }
                        }
                        exec::restore(&after_crash);
                        let (crashed2, _) = run_once_fault(t, sim.clone(), &[], hist.j, None, false, vec![], None, Some((i2, k2)));
                        cr.res.evaluations += 1;
                        cr.res.states += 1;
                        if !matches!(crashed2.result, BuildResult::Crashed) {
                            match &crashed2.result {
                                BuildResult::Error(e) => cr.fail("log-unloadable-after-crash", format!("{}: the recovery invocation cannot start: {}", what, e), i, k, Some((i2, k2))),
                                other => cr.fail("machinery:crash-did-not-happen", format!("second fault ({}, {}) did not stop the recovery build: {:?}", i2, k2, other), i, k, Some((i2, k2))),
                            }
                            continue;
                        }
                        let mut sim2 = crashed2.sim;
                        correct_model(&mut sim2, &w2, i2, k2);
                        let what2 = format!("{}; then crash of the recovery build at write {} ({} of {} bytes)", what, i2, k2, w2[i2].len);
                        if cr.recover(&sim2, hist.j, i, k, Some((i2, k2)), &what2).is_some() {
                            cr.res.nontrivial += 1;
                        }
                    }
                }
            }
            if cr.res.samples.is_empty() || idx % 37 == 0 {
                cr.res.sample(|| json!({"history": h, "template": hist.template, "crash": what}));
            }
        }
    }
    res
}

pub fn case_from_marker(job: &str, bytes: &[u8]) -> Value {
    json!({"job": job, "marker": String::from_utf8_lossy(bytes)})
}
