use crate::worker::Ctx;
use vcore::report::ShardResult;

pub fn run(_ctx: &mut Ctx) -> ShardResult {
    unimplemented!("engine crash")
}
