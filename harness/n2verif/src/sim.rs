//! The scripted command model shared by the sched, hist and crash engines:
//! what a command does when the explorer lets it finish.  Every effect goes
//! both to the real file system and to the reference model's file table.

use crate::exec::{self, CommandModel, Term};
use std::collections::BTreeMap;
use vcore::project::Project;
use vcore::refbuild::{FileInfo, Model};

#[derive(Debug, Clone, Copy, PartialEq, Eq, Hash)]
pub enum Outcome {
    Ok,
    Fail,
    /// Writes its outputs (fresh mtime) and then fails.
    FailAfterWrite,
    Interrupt,
}

#[derive(Debug, Clone)]
pub struct RunRecord {
    pub step: usize,
    pub cmdline: String,
    pub term: Term,
    /// Whether the reference model considered the step dirty when it ran.
    pub model_dirty: bool,
    pub model_reason: String,
    /// Index of the project (manifest generation) the step belonged to.
    pub generation: usize,
}

#[derive(Clone)]
pub struct Sim {
    /// Manifest generations; the last one is current.
    pub projects: Vec<Project>,
    pub model: Model,
    /// Outcome per command line (default Ok).
    pub outcomes: BTreeMap<String, Outcome>,
    /// What each dependency-reporting command reports, by first output name.
    pub reports: BTreeMap<String, Vec<String>>,
    /// Commands (by first output) that leave an output untouched when its
    /// content would not change.
    pub restat_like: Vec<String>,
    /// Generator steps (by first output): what they write as the manifest.
    pub generators: BTreeMap<String, Generator>,
    /// Text each command prints (by first output).
    pub prints: BTreeMap<String, Vec<u8>>,
    pub ran: Vec<RunRecord>,
    /// When set, depfiles are written with this raw text instead of the
    /// generated one (malformed depfile scenarios), by first output.
    pub raw_depfile: BTreeMap<String, String>,
    /// Declared outputs that the command never produces.
    pub skip_outputs: Vec<String>,
    /// Files (by first output of the step) a command rewrites in place while
    /// it runs, besides its outputs (e.g. a cache it also reports as a
    /// dependency).
    pub side_touch: BTreeMap<String, Vec<String>>,
    /// Steps (by first output) adopted by restat and not run since: their
    /// contents are whatever was there, by design.
    pub adopted: std::collections::BTreeSet<String>,
}

#[derive(Debug, Clone)]
pub struct Generator {
    pub manifest_name: String,
    /// The project whose text the generator writes.
    pub next: Project,
}

impl Sim {
    pub fn new(project: Project) -> Sim {
        Sim {
            projects: vec![project],
            model: Model::default(),
            outcomes: BTreeMap::new(),
            reports: BTreeMap::new(),
            restat_like: Vec::new(),
            generators: BTreeMap::new(),
            prints: BTreeMap::new(),
            ran: Vec::new(),
            raw_depfile: BTreeMap::new(),
            skip_outputs: Vec::new(),
            side_touch: BTreeMap::new(),
            adopted: std::collections::BTreeSet::new(),
        }
    }

    pub fn project(&self) -> &Project {
        self.projects.last().unwrap()
    }

    /// Harness-side edit: (re)write a file with fresh content and mtime.
    pub fn touch(&mut self, name: &str) {
        let t = self.model.tick();
        let tag = vcore::refbuild::tag_hash(&[name, "src"], &[t]);
        // Header sources live behind a symbolic link (include/foo.h ->
        // foo.h.target): every edit goes through the link to the real file,
        // whose mtime is the one that matters.
        if name.ends_with(".h") && std::fs::symlink_metadata(name).is_err() {
            let p = std::path::Path::new(name);
            if let Some(parent) = p.parent() {
                if !parent.as_os_str().is_empty() {
                    std::fs::create_dir_all(parent).expect("mkdir");
                }
            }
            let base = p.file_name().map(|b| b.to_string_lossy().into_owned()).unwrap_or_default();
            std::os::unix::fs::symlink(format!("{}.target", base), p).expect("symlink");
        }
        exec::write_file(name, tag.to_string().as_bytes(), t);
        self.model.files.insert(name.to_string(), FileInfo { mtime: t, tag });
    }

    /// Harness-side edit: bump the mtime only (content tag kept).
    pub fn touch_mtime(&mut self, name: &str) {
        if let Some(info) = self.model.files.get(name).copied() {
            let t = self.model.tick();
            exec::set_mtime(name, t);
            self.model.files.insert(name.to_string(), FileInfo { mtime: t, tag: info.tag });
        }
    }

    pub fn remove(&mut self, name: &str) {
        exec::remove_file(name);
        self.model.files.remove(name);
    }

    pub fn write_manifest(&mut self, name: &str) {
        let mut files = vec![name.to_string()];
        if let Some((frag, _)) = &self.project().fragment {
            files.push(frag.clone());
        }
        for f in files {
            let text = self.project().text_of_file(&f);
            let t = self.model.tick();
            exec::write_file(&f, text.as_bytes(), t);
            let tag = vcore::refbuild::tag_hash(&[&text], &[]);
            self.model.files.insert(f, FileInfo { mtime: t, tag });
        }
    }

    /// Creates every source file of the current project that does not exist.
    pub fn create_sources(&mut self) {
        for s in self.project().sources() {
            if !self.model.exists(&s) {
                self.touch(&s);
            }
        }
    }

    fn find(&self, cmdline: &str) -> Option<(usize, usize)> {
        for g in (0..self.projects.len()).rev() {
            if let Some(s) = self.projects[g].step_by_cmdline(cmdline) {
                return Some((g, s));
            }
        }
        None
    }

    fn write_outputs(&mut self, g: usize, step: usize) {
        let s = self.projects[g].steps[step].clone();
        let key = s.outs[0].clone();
        let reads: Vec<String> = self
            .reports
            .get(&key)
            .map(|r| r.iter().map(|x| vcore::refbuild::canon(x)).filter(|f| self.model.exists(f)).collect())
            .unwrap_or_default();
        let restat = self.restat_like.contains(&key);
        if let Some(files) = self.side_touch.get(&key).cloned() {
            for f in files {
                if self.model.exists(&f) {
                    self.touch_mtime(&f);
                }
            }
        }
        for out in s.all_outs() {
            if let Some(gen) = self.generators.get(&key) {
                if *out == gen.manifest_name {
                    continue; // written below
                }
            }
            if self.skip_outputs.contains(out) {
                continue;
            }
            let tag = self.model.output_tag(&s, out, &reads);
            if restat {
                if let Some(info) = self.model.files.get(out) {
                    if info.tag == tag {
                        continue;
                    }
                }
            }
            let t = self.model.tick();
            exec::write_file(out, tag.to_string().as_bytes(), t);
            self.model.files.insert(out.clone(), FileInfo { mtime: t, tag });
        }
        if let Some(gen) = self.generators.get(&key).cloned() {
            let text = gen.next.text_of_file(&gen.manifest_name);
            let t = self.model.tick();
            exec::write_file(&gen.manifest_name, text.as_bytes(), t);
            let tag = vcore::refbuild::tag_hash(&[&text], &[]);
            self.model.files.insert(gen.manifest_name.clone(), FileInfo { mtime: t, tag });
            if *self.project() != gen.next {
                self.projects.push(gen.next);
            }
        }
    }
}

impl CommandModel for Sim {
    fn run(&mut self, cmdline: &str, output: &mut dyn FnMut(&[u8])) -> Term {
        let Some((g, step)) = self.find(cmdline) else {
            self.ran.push(RunRecord {
                step: usize::MAX,
                cmdline: cmdline.to_string(),
                term: Term::Failure,
                model_dirty: false,
                model_reason: "unknown command".into(),
                generation: 0,
            });
            return Term::Failure;
        };
        let s = self.projects[g].steps[step].clone();
        let key = s.outs[0].clone();
        let dirty = self.model.is_dirty(&self.projects[g], step);
        let outcome = self.outcomes.get(cmdline).copied().unwrap_or(Outcome::Ok);
        if let Some(p) = self.prints.get(&key) {
            output(p);
        }
        // A compiler fails when a file it includes does not exist.
        let missing_include = (s.depfile.is_some() || s.msvc)
            && self
                .reports
                .get(&key)
                .map(|r| r.iter().any(|h| !self.model.exists(&vcore::refbuild::canon(h))))
                .unwrap_or(false);
        let outcome = if missing_include && outcome == Outcome::Ok {
            Outcome::Fail
        } else {
            outcome
        };
        let term = match outcome {
            Outcome::Fail => Term::Failure,
            Outcome::Interrupt => Term::Interrupted,
            Outcome::FailAfterWrite => {
                self.write_outputs(g, step);
                Term::Failure
            }
            Outcome::Ok => {
                self.adopted.remove(&key);
                self.write_outputs(g, step);
                let reported: Option<Vec<String>> = if s.depfile.is_some() || s.msvc {
                    Some(self.reports.get(&key).cloned().unwrap_or_default())
                } else {
                    None
                };
                let mut depfile_ok = true;
                if let Some(df) = &s.depfile {
                    let text = match self.raw_depfile.get(&key) {
                        Some(raw) if raw == "<none>" => {
                            // the command writes no depfile at all
                            let _ = std::fs::remove_file(df);
                            String::new()
                        }
                        Some(raw) => {
                            depfile_ok = n2::verif::parse_depfile(raw.as_bytes()).is_ok();
                            raw.clone()
                        }
                        None => {
                            let mut t = format!("{}:", s.outs[0]);
                            for d in reported.as_deref().unwrap_or(&[]) {
                                t.push(' ');
                                t.push_str(d);
                            }
                            t.push('\n');
                            t
                        }
                    };
                    if self.raw_depfile.get(&key).map(|r| r.as_str()) != Some("<none>") {
                        std::fs::write(df, text).expect("write depfile");
                    }
                }
                if s.msvc {
                    // Delivered in small pieces, as a pipe may split anywhere.
                    let mut all = Vec::new();
                    for d in reported.as_deref().unwrap_or(&[]) {
                        all.extend_from_slice(format!("Note: including file: {}\n", d).as_bytes());
                    }
                    for chunk in all.chunks(5) {
                        output(chunk);
                    }
                }
                if depfile_ok {
                    // n2 turns a malformed depfile into a failure of the step;
                    // otherwise the step is recorded - with an empty list when
                    // the command wrote no depfile at all.
                    let gproj = self.projects[g].clone();
                    let no_depfile = s.depfile.is_some() && self.raw_depfile.get(&key).map(|r| r.as_str()) == Some("<none>");
                    let remembered: Option<Vec<String>> = if no_depfile { Some(Vec::new()) } else { reported.clone() };
                    self.model.record_success(&gproj, step, remembered.as_deref());
                }
                Term::Success
            }
        };
        self.ran.push(RunRecord {
            step,
            cmdline: cmdline.to_string(),
            term,
            model_dirty: dirty.is_dirty(),
            model_reason: if missing_include {
                "missing-include".to_string()
            } else {
                format!("{:?}", dirty)
            },
            generation: g,
        });
        term
    }

    fn as_any(&mut self) -> &mut dyn std::any::Any {
        self
    }
}

/// Takes the Sim back out of a finished execution.
pub fn take_sim(mut model: Box<dyn CommandModel>) -> Sim {
    model
        .as_any()
        .downcast_mut::<Sim>()
        .expect("command model is a Sim")
        .clone()
}
