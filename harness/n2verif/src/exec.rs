//! The harness side of n2's verification hooks: a scripted, gated executor.
//!
//! n2 still spawns its real task threads, which run the real `run_task`; only
//! the innermost `run_command` is replaced.  Each task thread parks on a gate;
//! when the main thread is about to block in `Runner::wait`, the hook waits
//! until every started task has parked, asks the explorer which one finishes
//! next, and releases exactly that one.  Exactly one thread runs at any time,
//! so an execution is a function of (scenario, choice list).

use crate::worker::{catch, PanicRecord};
use n2::verif::{BuildOpts, Hooks, ProgressEvent, Termination};
use std::path::Path;
use std::sync::{Condvar, Mutex, MutexGuard};
use std::time::{Duration, Instant, SystemTime};

/// What a scripted command does when it is released.  Runs on the task
/// thread, while every other thread is blocked.
pub trait CommandModel: Send {
    fn run(&mut self, cmdline: &str, output: &mut dyn FnMut(&[u8])) -> Term;
    fn as_any(&mut self) -> &mut dyn std::any::Any;
}

#[derive(Debug, Clone, Copy, PartialEq, Eq, Hash)]
pub enum Term {
    Success,
    Failure,
    Interrupted,
}

impl Term {
    fn to_n2(self) -> Termination {
        match self {
            Term::Success => Termination::Success,
            Term::Failure => Termination::Failure,
            Term::Interrupted => Termination::Interrupted,
        }
    }
    fn from_n2(t: &Termination) -> Term {
        match t {
            Termination::Success => Term::Success,
            Termination::Failure => Term::Failure,
            Termination::Interrupted => Term::Interrupted,
        }
    }
}

#[derive(Debug, Clone, PartialEq, Eq, Hash)]
pub enum Event {
    /// A `Work::run` begins (a new phase of the invocation).
    RunBegin { parallelism: usize },
    /// `Runner::start` on the main thread.
    Start { build: usize, cmdline: String },
    /// `Runner::wait` about to block; `believed` is n2's own running count,
    /// `running` the builds whose commands are actually in flight.
    Wait { believed: usize, running: Vec<usize> },
    /// The explorer released this command.
    Release { build: usize },
    /// The released command finished with this result.
    Finished { build: usize, term: Term },
    /// Order chosen for newly ready dependents (only when there was a choice).
    Order { menu: Vec<usize>, chosen: Vec<usize> },
    /// State counts (want, ready, queued, running, done, failed) and n2's own total.
    Counts([usize; 6], usize),
    TaskStarted { build: usize },
    TaskFinished { build: usize, term: Term, output: Vec<u8> },
    TaskOutput { build: usize, line: Vec<u8> },
    Log(String),
    /// One frame painted by the shadow fancy console (C19 only).
    Frame(Vec<u8>),
    /// A write to the db file: total length and how many bytes persisted.
    DbWrite { len: usize, persisted: usize },
}

#[derive(Debug, Clone, PartialEq, Eq)]
pub struct Point {
    /// 'f' = which running command finishes, 'o' = order of ready dependents.
    pub kind: char,
    pub menu: Vec<usize>,
    pub arity: usize,
    pub chosen: usize,
}

struct Task {
    build: usize,
    cmdline: String,
    parked: bool,
    released: bool,
    finished: bool,
}

/// Payload of the panic that simulates the death of the n2 process.
pub struct CrashMarker;
/// Payload of the panic that stops an execution the harness cannot continue.
pub struct StopMarker(pub String);

#[derive(Default)]
struct Exec {
    active: bool,
    epoch: u64,
    model: Option<Box<dyn CommandModel>>,
    tasks: Vec<Task>,
    trace: Vec<Event>,
    prefix: Vec<usize>,
    points: Vec<Point>,
    explore_order: bool,
    diverged: Option<String>,
    stop_reason: Option<String>,
    waits: usize,
    max_waits: usize,
    db_fault: Option<(usize, usize)>,
    db_write_index: usize,
    record_counts: bool,
    cols: Option<Option<usize>>,
    kill_after_waits: Option<usize>,
}

static STATE: Mutex<Option<Exec>> = Mutex::new(None);
static CV: Condvar = Condvar::new();

fn lock() -> MutexGuard<'static, Option<Exec>> {
    match STATE.lock() {
        Ok(g) => g,
        Err(p) => p.into_inner(),
    }
}

struct HarnessHooks;

const GATE_TIMEOUT: Duration = Duration::from_secs(20);

impl Exec {
    fn next_choice(&mut self, kind: char, menu: Vec<usize>, arity: usize) -> usize {
        if arity <= 1 {
            return 0;
        }
        let i = self.points.len();
        let chosen = if i < self.prefix.len() {
            let c = self.prefix[i];
            if c >= arity {
                self.diverged = Some(format!(
                    "choice {} of point {} out of range (arity {})",
                    c, i, arity
                ));
                0
            } else {
                c
            }
        } else {
            0
        };
        self.points.push(Point {
            kind,
            menu,
            arity,
            chosen,
        });
        chosen
    }
}

impl Hooks for HarnessHooks {
    fn run_begin(&self, parallelism: usize) {
        let mut g = lock();
        if let Some(e) = g.as_mut().filter(|e| e.active) {
            e.trace.push(Event::RunBegin { parallelism });
        }
    }

    fn start(&self, build: usize, cmdline: &str) {
        let mut g = lock();
        if let Some(e) = g.as_mut().filter(|e| e.active) {
            e.trace.push(Event::Start {
                build,
                cmdline: cmdline.to_string(),
            });
            e.tasks.push(Task {
                build,
                cmdline: cmdline.to_string(),
                parked: false,
                released: false,
                finished: false,
            });
        }
    }

    fn wait(&self, believed: usize) {
        let mut g = lock();
        let Some(e) = g.as_mut().filter(|e| e.active) else {
            return;
        };
        e.waits += 1;
        let live: Vec<usize> = e
            .tasks
            .iter()
            .filter(|t| !t.finished)
            .map(|t| t.build)
            .collect();
        let mut sorted = live.clone();
        sorted.sort();
        e.trace.push(Event::Wait {
            believed,
            running: sorted.clone(),
        });
        if live.is_empty() {
            // n2 would block forever on its channel.
            e.stop_reason = Some("wait-with-nothing-running".to_string());
            drop(g);
            std::panic::panic_any(StopMarker("wait with nothing running".into()));
        }
        if let Some(n) = e.kill_after_waits {
            if e.waits > n {
                // The n2 process is killed while blocked here.
                drop(g);
                std::panic::panic_any(CrashMarker);
            }
        }
        if e.waits > e.max_waits {
            e.stop_reason = Some("horizon-exceeded".to_string());
            drop(g);
            std::panic::panic_any(StopMarker("more waits than the horizon allows".into()));
        }
        // Wait until every live task has arrived at its gate.
        let deadline = Instant::now() + GATE_TIMEOUT;
        loop {
            let e = g.as_mut().unwrap();
            if e.tasks.iter().all(|t| t.finished || t.parked) {
                break;
            }
            let now = Instant::now();
            if now >= deadline {
                e.stop_reason = Some("machinery:task-never-reached-gate".to_string());
                drop(g);
                std::panic::panic_any(StopMarker("a started task never reached its gate".into()));
            }
            g = match CV.wait_timeout(g, deadline - now) {
                Ok((g, _)) => g,
                Err(p) => p.into_inner().0,
            };
        }
        let e = g.as_mut().unwrap();
        let arity = sorted.len();
        let c = e.next_choice('f', sorted.clone(), arity);
        let build = sorted[c];
        let t = e
            .tasks
            .iter_mut()
            .find(|t| t.build == build && !t.finished)
            .unwrap();
        t.released = true;
        e.trace.push(Event::Release { build });
        CV.notify_all();
    }

    fn run_command(
        &self,
        cmdline: &str,
        output: &mut dyn FnMut(&[u8]),
    ) -> Option<anyhow::Result<Termination>> {
        let mut g = lock();
        let e = g.as_mut().filter(|e| e.active)?;
        let epoch = e.epoch;
        let Some(idx) = e
            .tasks
            .iter()
            .position(|t| t.cmdline == cmdline && !t.parked && !t.finished)
        else {
            e.stop_reason = Some(format!("machinery:unknown-command:{}", cmdline));
            return Some(Ok(Termination::Failure));
        };
        e.tasks[idx].parked = true;
        let build = e.tasks[idx].build;
        CV.notify_all();
        loop {
            let e = match g.as_mut() {
                Some(e) if e.epoch == epoch && e.active => e,
                _ => return Some(Ok(Termination::Failure)), // abandoned
            };
            if e.tasks[idx].released {
                break;
            }
            g = match CV.wait(g) {
                Ok(g) => g,
                Err(p) => p.into_inner(),
            };
        }
        let e = g.as_mut().unwrap();
        let mut model = e.model.take().expect("command model present");
        // The model runs with the lock held: nothing else may run now.
        let term = model.run(cmdline, output);
        e.model = Some(model);
        e.tasks[idx].finished = true;
        e.trace.push(Event::Finished { build, term });
        Some(Ok(term.to_n2()))
    }

    fn order(&self, ids: Vec<usize>) -> Vec<usize> {
        let mut g = lock();
        let Some(e) = g.as_mut().filter(|e| e.active) else {
            return ids;
        };
        if ids.len() < 2 || !e.explore_order {
            return ids;
        }
        let perms = vcore::enumerate::permutations(ids.len());
        let c = e.next_choice('o', ids.clone(), perms.len());
        let chosen: Vec<usize> = perms[c].iter().map(|&i| ids[i]).collect();
        e.trace.push(Event::Order {
            menu: ids,
            chosen: chosen.clone(),
        });
        chosen
    }

    fn db_write(
        &self,
        w: &mut dyn std::io::Write,
        bytes: &[u8],
    ) -> Option<std::io::Result<()>> {
        let mut g = lock();
        let e = g.as_mut().filter(|e| e.active)?;
        let index = e.db_write_index;
        e.db_write_index += 1;
        match e.db_fault {
            Some((at, keep)) if at == index => {
                let keep = keep.min(bytes.len());
                let r = w.write_all(&bytes[..keep]);
                e.trace.push(Event::DbWrite {
                    len: bytes.len(),
                    persisted: keep,
                });
                drop(g);
                if let Err(err) = r {
                    return Some(Err(err));
                }
                // The process dies here.
                std::panic::panic_any(CrashMarker);
            }
            _ => {
                e.trace.push(Event::DbWrite {
                    len: bytes.len(),
                    persisted: bytes.len(),
                });
                None
            }
        }
    }

    fn capture_progress(&self) -> bool {
        lock().as_ref().map(|e| e.active).unwrap_or(false)
    }

    fn progress(&self, ev: ProgressEvent) {
        let mut g = lock();
        let Some(e) = g.as_mut().filter(|e| e.active) else {
            return;
        };
        match ev {
            ProgressEvent::Update(c, total) => {
                if e.record_counts {
                    e.trace.push(Event::Counts(c, total))
                }
            }
            ProgressEvent::TaskStarted { build } => e.trace.push(Event::TaskStarted { build }),
            ProgressEvent::TaskOutput { build, line } => {
                e.trace.push(Event::TaskOutput { build, line })
            }
            ProgressEvent::TaskFinished {
                build,
                termination,
                output,
            } => e.trace.push(Event::TaskFinished {
                build,
                term: Term::from_n2(&termination),
                output,
            }),
            ProgressEvent::Log(s) => e.trace.push(Event::Log(s)),
            ProgressEvent::Frame(b) => e.trace.push(Event::Frame(b)),
        }
    }

    fn shadow_display(&self) -> bool {
        SHADOW_DISPLAY.load(std::sync::atomic::Ordering::Relaxed) && lock().as_ref().map(|e| e.active && e.record_counts).unwrap_or(false)
    }

    fn cols(&self) -> Option<Option<usize>> {
        lock().as_ref().and_then(|e| e.cols)
    }
}

/// When set, executions that record counts also feed a real fancy-console
/// state (n2::verif shadow display) and record every painted frame.
pub static SHADOW_DISPLAY: std::sync::atomic::AtomicBool = std::sync::atomic::AtomicBool::new(false);

/// Sends this process's stdout to /dev/null (the shadow display paints there).
pub fn discard_stdout() {
    use std::io::Write;
    use std::os::fd::AsRawFd;
    let _ = std::io::stdout().flush();
    if let Ok(f) = std::fs::OpenOptions::new().write(true).open("/dev/null") {
        unsafe {
            if SAVED_STDOUT.load(std::sync::atomic::Ordering::SeqCst) < 0 {
                SAVED_STDOUT.store(libc::dup(1), std::sync::atomic::Ordering::SeqCst);
            }
            libc::dup2(f.as_raw_fd(), 1);
        }
    }
}

static SAVED_STDOUT: std::sync::atomic::AtomicI32 = std::sync::atomic::AtomicI32::new(-1);

/// Undoes `discard_stdout` (for the replay command, which reports on stdout).
pub fn restore_stdout() {
    use std::io::Write;
    let _ = std::io::stdout().flush();
    let fd = SAVED_STDOUT.load(std::sync::atomic::Ordering::SeqCst);
    if fd >= 0 {
        unsafe {
            libc::dup2(fd, 1);
        }
    }
}

static INSTALL: std::sync::Once = std::sync::Once::new();

pub fn install_hooks() {
    INSTALL.call_once(|| {
        n2::verif::install(Box::new(HarnessHooks));
        *lock() = Some(Exec::default());
    });
}

pub fn set_cols(c: Option<Option<usize>>) {
    if let Some(e) = lock().as_mut() {
        e.cols = c;
    }
}

pub struct ExecConfig {
    pub model: Box<dyn CommandModel>,
    pub prefix: Vec<usize>,
    pub explore_order: bool,
    pub db_fault: Option<(usize, usize)>,
    pub max_waits: usize,
    pub record_counts: bool,
    /// Simulate `kill -9` of n2 when it blocks for the (n+1)-th time.
    pub kill_after_waits: Option<usize>,
}

#[derive(Debug, Clone, PartialEq, Eq)]
pub enum BuildResult {
    /// `Ok(Some(n))`: success, n tasks ran.
    Success(usize),
    /// `Ok(None)`: a command failed or was interrupted.
    Failed,
    /// `Err(msg)`.
    Error(String),
    /// The simulated process death requested through `db_fault`.
    Crashed,
    /// The harness stopped the execution (wait with nothing running, horizon).
    Stopped(String),
    Panicked(PanicRecord2),
}

#[derive(Debug, Clone, PartialEq, Eq)]
pub struct PanicRecord2 {
    pub message: String,
    pub location: String,
    pub key: String,
}

pub struct ExecOutcome {
    pub result: BuildResult,
    pub trace: Vec<Event>,
    pub points: Vec<Point>,
    pub model: Box<dyn CommandModel>,
    /// Set when the recorded choice prefix did not fit the execution.
    pub diverged: Option<String>,
    /// Panics on task threads (n2's own code running there).
    pub thread_panics: Vec<PanicRecord>,
}

/// Runs one in-process invocation of n2 under the scripted executor.
pub fn run_build(cfg: ExecConfig, opts: BuildOpts) -> ExecOutcome {
    install_hooks();
    {
        let mut g = lock();
        let e = g.as_mut().unwrap();
        let epoch = e.epoch + 1;
        let cols = e.cols;
        *e = Exec::default();
        e.epoch = epoch;
        e.cols = cols;
        e.active = true;
        e.model = Some(cfg.model);
        e.prefix = cfg.prefix;
        e.explore_order = cfg.explore_order;
        e.db_fault = cfg.db_fault;
        e.max_waits = cfg.max_waits;
        e.record_counts = cfg.record_counts;
        e.kill_after_waits = cfg.kill_after_waits;
    }
    let _ = crate::worker::take_other_thread_panics();
    let r = catch(|| n2::verif::verif_build(opts));
    // Let every started task reach its gate, then abandon the rest.
    let mut g = lock();
    let deadline = Instant::now() + GATE_TIMEOUT;
    let mut machinery = None;
    loop {
        let e = g.as_mut().unwrap();
        if e.tasks.iter().all(|t| t.finished || t.parked) {
            break;
        }
        let now = Instant::now();
        if now >= deadline {
            machinery = Some("a started task never reached its gate".to_string());
            break;
        }
        g = match CV.wait_timeout(g, deadline - now) {
            Ok((g, _)) => g,
            Err(p) => p.into_inner().0,
        };
    }
    let e = g.as_mut().unwrap();
    e.active = false;
    e.epoch += 1;
    CV.notify_all();
    let stop = e.stop_reason.take().or(machinery);
    let result = match r {
        Ok(Ok(Some(n))) => BuildResult::Success(n),
        Ok(Ok(None)) => BuildResult::Failed,
        Ok(Err(err)) => BuildResult::Error(format!("{}", err)),
        Err(p) => {
            if p.message == "<crash marker>" {
                BuildResult::Crashed
            } else if p.message.starts_with("<stop marker>") {
                BuildResult::Stopped(stop.clone().unwrap_or_else(|| p.message.clone()))
            } else {
                BuildResult::Panicked(PanicRecord2 {
                    key: p.key(),
                    message: p.message,
                    location: p.location,
                })
            }
        }
    };
    let result = match (&result, &stop) {
        (BuildResult::Stopped(_), _) => result,
        (_, Some(s)) if s.starts_with("machinery:") => BuildResult::Stopped(s.clone()),
        _ => result,
    };
    ExecOutcome {
        result,
        trace: std::mem::take(&mut e.trace),
        points: std::mem::take(&mut e.points),
        model: e.model.take().expect("model returned"),
        diverged: e.diverged.take(),
        thread_panics: crate::worker::take_other_thread_panics(),
    }
}

// ---------------------------------------------------------------------------
// File system helpers with a logical clock.

pub const EPOCH0: u64 = 1_600_000_000;

/// Logical time -> mtime.  Consecutive ticks are 250 ns apart and every fourth
/// one crosses a second boundary, so a comparison that loses precision
/// (seconds, milliseconds, microseconds) confuses neighbouring writes, while
/// the order of ticks is the order of mtimes at full resolution.
pub fn mtime_of(tick: u64) -> SystemTime {
    SystemTime::UNIX_EPOCH + Duration::new(EPOCH0 + tick / 4, ((tick % 4) * 250) as u32)
}

pub fn write_file(path: &str, content: &[u8], tick: u64) {
    let p = Path::new(path);
    if let Some(parent) = p.parent() {
        if !parent.as_os_str().is_empty() {
            std::fs::create_dir_all(parent).expect("mkdir");
        }
    }
    std::fs::write(p, content).unwrap_or_else(|e| panic!("write {}: {}", path, e));
    set_mtime(path, tick);
}

pub fn set_mtime(path: &str, tick: u64) {
    let f = std::fs::OpenOptions::new()
        .write(true)
        .open(path)
        .unwrap_or_else(|e| panic!("open {}: {}", path, e));
    f.set_modified(mtime_of(tick)).expect("set mtime");
}

pub fn remove_file(path: &str) {
    let _ = std::fs::remove_file(path);
}

/// An in-memory copy of a small directory tree (files and symbolic links).
#[derive(Clone, Default)]
pub struct Snapshot {
    pub files: Vec<(String, Vec<u8>, SystemTime)>,
    /// (link path, link text)
    pub links: Vec<(String, String)>,
}

fn walk(dir: &Path, prefix: &str, out: &mut Vec<String>) {
    let Ok(rd) = std::fs::read_dir(dir) else {
        return;
    };
    for ent in rd.flatten() {
        let name = ent.file_name().to_string_lossy().into_owned();
        let rel = if prefix.is_empty() {
            name.clone()
        } else {
            format!("{}/{}", prefix, name)
        };
        match ent.file_type() {
            Ok(t) if t.is_dir() => walk(&ent.path(), &rel, out),
            Ok(_) => out.push(rel),
            Err(_) => {}
        }
    }
}

pub fn snapshot() -> Snapshot {
    let mut names = Vec::new();
    walk(Path::new("."), "", &mut names);
    names.sort();
    let mut s = Snapshot::default();
    for n in names {
        if let Ok(target) = std::fs::read_link(&n) {
            s.links.push((n, target.to_string_lossy().into_owned()));
            continue;
        }
        let data = std::fs::read(&n).unwrap_or_default();
        let mt = std::fs::metadata(&n)
            .and_then(|m| m.modified())
            .unwrap_or(SystemTime::UNIX_EPOCH);
        s.files.push((n, data, mt));
    }
    s
}

/// Empties the current directory (the worker's scratch dir).
pub fn clear_dir() {
    let Ok(rd) = std::fs::read_dir(".") else {
        return;
    };
    for ent in rd.flatten() {
        let p = ent.path();
        match ent.file_type() {
            Ok(t) if t.is_dir() => {
                let _ = std::fs::remove_dir_all(&p);
            }
            _ => {
                let _ = std::fs::remove_file(&p);
            }
        }
    }
}

pub fn restore(s: &Snapshot) {
    clear_dir();
    for (name, data, mt) in &s.files {
        let p = Path::new(name);
        if let Some(parent) = p.parent() {
            if !parent.as_os_str().is_empty() {
                std::fs::create_dir_all(parent).expect("mkdir");
            }
        }
        std::fs::write(p, data).expect("restore write");
        let f = std::fs::OpenOptions::new().write(true).open(p).expect("open");
        f.set_modified(*mt).expect("set mtime");
    }
    for (name, target) in &s.links {
        let p = Path::new(name);
        if let Some(parent) = p.parent() {
            if !parent.as_os_str().is_empty() {
                std::fs::create_dir_all(parent).expect("mkdir");
            }
        }
        std::os::unix::fs::symlink(target, p).expect("restore symlink");
    }
}
