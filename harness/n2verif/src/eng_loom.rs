//! Engine `loom`: exhaustive thread-interleaving exploration (loom 0.7) of the
//! two places where n2's threads talk to each other: `task::Runner`
//! (task threads -> main thread over an mpsc channel) and
//! `FancyConsoleProgress` (main thread <-> display thread over a Mutex and a
//! Condvar).  The harness itself (harness/loomh) is compiled into a scratch
//! copy of /repo's working tree by tools/loom_prepare.sh (run by ./check
//! before this binary starts); here we only enumerate scenarios, run the
//! harness binary once per scenario, and collect its verdicts.

use crate::worker::{Ctx, Tier};
use serde_json::{json, Value};
use std::process::Command;
use vcore::report::ShardResult;

const LOOMH: &str = "/verif/target/loom/loomh.bin";

pub fn jobs(prop: &str, _tier: Tier) -> Vec<(String, u64)> {
    match prop {
        // (few shards: loom maps and unmaps a stack per modelled thread and
        // execution, which scales badly over many processes at once)
        "C04" => vec![("loom:runner".into(), 6)],
        "C16" => vec![("loom:runner".into(), 6), ("loom:fancy".into(), 6)],
        "C20" => vec![("loom:fancy".into(), 8)],
        _ => vec![],
    }
}

/// (scenario text, preemption bound or "none").
fn runner_scenarios(tier: Tier) -> Vec<(String, String)> {
    let mut v = Vec::new();
    let two: &[&str] = &["0", "1", "2", "1h", "1f", "1m", "2m", "1i", "0f", "1d"];
    // Two tasks: preemption bound 3 in the quick tier (on the current code that
    // is already every interleaving: the unbounded search visits the same
    // 10-150 executions), unbounded in the thorough tier.  The bound keeps the
    // quick tier quick should the Runner grow shared atomics, where an
    // unbounded search multiplies by orders of magnitude.
    for p in [1, 2] {
        for (i, a) in two.iter().enumerate() {
            for b in two.iter().skip(i) {
                v.push((format!("{};{};{}", p, a, b), tier.pick("3", "none").to_string()));
            }
        }
    }
    // Three tasks at -j2 (the third starts after the first wait) and at -j3.
    let three: &[&str] = tier.pick(&["0", "1", "1h", "1f", "0d"][..], &["0", "1", "2", "1h", "1f", "1m", "1d"][..]);
    for p in [2, 3] {
        for a in three {
            for b in three {
                for c in three {
                    if p == 3 && !(a <= b && b <= c) {
                        continue; // at -j3 the three are symmetric
                    }
                    v.push((format!("{};{};{};{}", p, a, b, c), tier.pick("2", "3").to_string()));
                }
            }
        }
    }
    // Four tasks with one slot given back in an unusual way (failure, unreadable
    // depfile) early on: is it given back exactly once?
    for p in [2, 3] {
        for first in ["0d", "0f", "0"] {
            for pos in 0..2 {
                let mut t = vec!["0", "0", "0", "0"];
                t[pos] = first;
                v.push((format!("{};{}", p, t.join(";")), "2".to_string()));
            }
        }
    }
    if tier == Tier::Thorough {
        let four: &[&str] = &["0", "1", "1f"];
        for p in [2, 3] {
            for a in four {
                for b in four {
                    for c in four {
                        for d in four {
                            v.push((format!("{};{};{};{};{}", p, a, b, c, d), "2".to_string()));
                        }
                    }
                }
            }
        }
    }
    v
}

/// Every well-formed op string up to `len` (o/F/S/q need a running task).
fn op_strings(len: usize, alphabet: &[char]) -> Vec<String> {
    fn rec(cur: &mut Vec<char>, running: usize, len: usize, alphabet: &[char], out: &mut Vec<String>) {
        if !cur.is_empty() {
            out.push(cur.iter().collect());
        }
        if cur.len() == len {
            return;
        }
        for &c in alphabet {
            let (ok, r) = match c {
                's' => (true, running + 1),
                'o' => (running > 0, running),
                'F' | 'S' | 'q' => (running > 0, running.saturating_sub(1)),
                _ => (true, running),
            };
            if ok {
                cur.push(c);
                rec(cur, r, len, alphabet, out);
                cur.pop();
            }
        }
    }
    let mut out = Vec::new();
    rec(&mut Vec::new(), 0, len, alphabet, &mut out);
    out
}

fn fancy_scenarios(tier: Tier) -> Vec<(String, String)> {
    let mut v = Vec::new();
    let alpha = ['u', 's', 'o', 'F', 'S', 'q', 'l'];
    for ops in op_strings(tier.pick(3, 4), &alpha) {
        // Strings that print nothing persistent only exercise the protocol;
        // keep them, they are cheap.
        v.push((format!("0;0;{}", ops), tier.pick("2", "3").to_string()));
    }
    // With the modelled timer and with verbose command echo: shorter strings.
    for ops in op_strings(tier.pick(2, 3), &alpha) {
        v.push((format!("1;1;{}", ops), "2".to_string()));
    }
    // Curated longer shapes: a full task life cycle between log lines; two
    // tasks finishing in both orders; output arriving around a repaint.
    for ops in ["ulsoFl", "ussSFl", "slFsqS", "usouSl", "lsFlsSl"] {
        v.push((format!("0;0;{}", ops), "2".to_string()));
        v.push((format!("1;0;{}", ops), tier.pick("1", "2").to_string()));
    }
    if tier == Tier::Thorough {
        for ops in ["ulsoFl", "ussSFl"] {
            v.push((format!("2;1;{}", ops), "2".to_string()));
        }
    }
    v
}

fn run_one(engine: &str, scenario: &str, bound: &str, cap_secs: u64) -> Result<Value, String> {
    let mut out = Command::new(LOOMH);
    let out = out
        .arg(engine)
        .arg(scenario)
        .arg(bound)
        .arg(cap_secs.to_string())
        .env("RUST_BACKTRACE", "0");
    // The harness process must not outlive this worker (the parent kills a
    // worker whose case takes too long).
    use std::os::unix::process::CommandExt;
    let out = unsafe {
        out.pre_exec(|| {
            libc::prctl(libc::PR_SET_PDEATHSIG, libc::SIGKILL);
            Ok(())
        })
    };
    let out = out
        .output()
        .map_err(|e| format!("cannot run {}: {}", LOOMH, e))?;
    let err = String::from_utf8_lossy(&out.stderr).to_string();
    for line in err.lines() {
        if let Some(j) = line.strip_prefix("LOOMH ") {
            return serde_json::from_str(j).map_err(|e| format!("bad harness line {:?}: {}", line, e));
        }
    }
    // No verdict line: the harness died (loom aborts the process when its own
    // objects are dropped during the unwinding of a failed execution).  The
    // first panic line still carries the failed invariant.
    for line in err.lines() {
        if let Some(rest) = line.split("loomh invariant ").nth(1) {
            let (key, detail) = rest.split_once(": ").unwrap_or((rest, ""));
            return Ok(json!({
                "engine": engine, "scenario": scenario, "iterations": 0, "distinct": 0, "ok": false,
                "key": key, "detail": format!("{} (the harness process aborted while unwinding)", detail), "sample": ""
            }));
        }
    }
    Ok(json!({
        "engine": engine, "scenario": scenario, "iterations": 0, "distinct": 0, "ok": false,
        "key": "harness-died",
        "detail": format!("status {:?}; stderr tail: {}", out.status, err.lines().rev().take(6).collect::<Vec<_>>().join(" | ")),
        "sample": ""
    }))
}

pub fn run(ctx: &mut Ctx) -> ShardResult {
    let mut res = ShardResult::default();
    let job = ctx.job.clone();
    let engine = job.split(':').nth(1).unwrap_or("").to_string();
    let scenarios = match engine.as_str() {
        "runner" => runner_scenarios(ctx.tier),
        "fancy" => fancy_scenarios(ctx.tier),
        other => panic!("unknown loom job {}", other),
    };
    for (idx, (scn, bound)) in scenarios.iter().enumerate() {
        let idx = idx as u64;
        if let Some(c) = &ctx.replay {
            if c["scenario"].as_str() != Some(scn.as_str()) || c["bound"].as_str() != Some(bound.as_str()) {
                continue;
            }
        } else if idx % ctx.nshards != ctx.shard || ctx.skip(idx) {
            continue;
        }
        ctx.marker.set(idx, format!("{} {} {}", engine, scn, bound).as_bytes());
        let cap_secs = ctx.tier.pick(20, 240);
        let v = match run_one(&engine, scn, bound, cap_secs) {
            Ok(v) => v,
            Err(e) => panic!("loom harness: {}", e),
        };
        let iterations = v["iterations"].as_u64().unwrap_or(0);
        let distinct = v["distinct"].as_u64().unwrap_or(0);
        res.evaluations += iterations;
        res.states += iterations;
        res.transitions += iterations;
        res.count("loom_scenarios", 1);
        res.count(&format!("loom_{}_interleavings", engine), iterations);
        if bound == "none" {
            res.count("loom_scenarios_unbounded", 1);
        }
        res.max_depth = res.max_depth.max(scn.len() as u64);
        if v["capped"].as_bool() == Some(true) {
            // Not a verdict on anything beyond what was explored: reported as a cap.
            res.caps.push(format!("loom {} scenario {:?} (preemption bound {}) stopped at the {} s wall cap after {} interleavings", engine, scn, bound, cap_secs, iterations));
        }
        if v["ok"].as_bool() == Some(true) {
            res.nontrivial += distinct;
            if distinct >= 2 {
                res.count("loom_scenarios_with_several_observations", 1);
            }
            res.outcome(&format!("loom-{}-ok", engine));
            res.sample(|| json!({"engine": engine, "scenario": scn, "preemption_bound": bound, "interleavings": iterations, "distinct_observations": distinct, "one_observation": v["sample"]}));
        } else {
            let key = format!("loom-{}-{}", engine, v["key"].as_str().unwrap_or("?"));
            let detail = v["detail"].as_str().unwrap_or("").to_string();
            res.outcome(&key);
            res.violation(
                &key,
                || format!("scenario {:?} (preemption bound {}), after {} interleavings: {}", scn, bound, iterations, detail),
                || json!({"job": job, "scenario": scn, "bound": bound}),
            );
        }
    }
    res
}

pub fn case_from_marker(job: &str, bytes: &[u8]) -> Value {
    let text = String::from_utf8_lossy(bytes).to_string();
    let f: Vec<&str> = text.split(' ').collect();
    json!({"job": job, "scenario": f.get(1).unwrap_or(&""), "bound": f.get(2).unwrap_or(&"")})
}
