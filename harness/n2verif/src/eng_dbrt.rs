//! C08 (serialisation and attribution halves): the build log driven directly
//! through the facade.  What is written for a step must be what is loaded for
//! it, for counts and lengths at every field-width boundary; and a record
//! applies to a step of a changed manifest iff every output named in it is
//! produced by that one step, the latest such record winning.

use crate::worker::{catch, Ctx, Tier};
use n2::verif::DbSession;
use serde_json::{json, Value};
use std::path::Path;
use vcore::enumerate::permutations;
use vcore::report::ShardResult;

pub fn jobs(_tier: Tier) -> Vec<(String, u64)> {
    vec![("dbrt:shapes".into(), 16), ("dbrt:attribution".into(), 16)]
}

const DEP_COUNTS: &[usize] = &[0, 1, 2, 255, 256, 257, 65535, 65536, 65537];
const NAME_LENS: &[usize] = &[1, 2, 127, 128, 255, 256, 1000, 4095];

fn name_of_len(prefix: &str, n: usize, utf8: bool) -> String {
    let mut s = String::from(prefix);
    let unit = if utf8 { "é" } else { "x" };
    while s.len() + unit.len() <= n {
        s.push_str(unit);
    }
    while s.len() < n {
        s.push('y');
    }
    s
}

fn manifest_for(outs_per_build: &[Vec<String>]) -> String {
    let mut m = String::from("rule r\n  command = c\n");
    for outs in outs_per_build {
        m.push_str("build");
        for o in outs {
            m.push(' ');
            m.push_str(o);
        }
        m.push_str(": r\n");
    }
    m
}

fn fresh_db() -> &'static Path {
    let p = Path::new("rt.n2_db");
    let _ = std::fs::remove_file(p);
    p
}

/// One shape: builds with the given outputs; a list of writes (build index,
/// dependency names, hash); reopened against the same manifest.
fn check_shape(outs_per_build: &[Vec<String>], writes: &[(usize, Vec<String>, u64)], label: &str, id: Value, job: &str, res: &mut ShardResult) {
    res.evaluations += 1;
    let manifest = manifest_for(outs_per_build);
    let db = fresh_db();
    let replay = || json!({"job": job, "id": id, "label": label});
    let r = catch(|| -> Result<Vec<(Option<u64>, Vec<String>)>, String> {
        let mut s = DbSession::open(manifest.as_bytes(), db).map_err(|e| format!("open: {}", e))?;
        for (b, deps, h) in writes {
            s.write(*b, deps, *h).map_err(|e| format!("write: {}", e))?;
        }
        drop(s);
        let s2 = DbSession::open(manifest.as_bytes(), db).map_err(|e| format!("reopen: {}", e))?;
        // and once more: opening must not damage the log
        let loaded = s2.loaded();
        drop(s2);
        let s3 = DbSession::open(manifest.as_bytes(), db).map_err(|e| format!("second reopen: {}", e))?;
        if s3.loaded() != loaded {
            return Err("a second reopen loads something else".into());
        }
        Ok(loaded)
    });
    // Expected: per build the last write.
    let mut expected: Vec<(Option<u64>, Vec<String>)> = vec![(None, vec![]); outs_per_build.len()];
    let mut representable = true;
    for (b, deps, h) in writes {
        if deps.len() > 0xffff || outs_per_build[*b].len() > 0x7fff {
            representable = false;
        }
        expected[*b] = (Some(*h), deps.clone());
    }
    match r {
        Err(p) => res.violation(&p.key(), || format!("{}: panicked: {} at {}", label, p.message, p.location), replay),
        Ok(Err(e)) => {
            if representable {
                res.violation("log-roundtrip-error", || format!("{}: {}", label, e), replay)
            } else {
                res.violation("unrepresentable-record-breaks-log", || format!("{}: {}", label, e), replay)
            }
        }
        Ok(Ok(loaded)) => {
            if representable {
                if loaded != expected {
                    let diff = loaded.iter().zip(&expected).position(|(a, b)| a != b).unwrap_or(0);
                    res.violation(
                        "loaded-differs-from-written",
                        || format!("{}: build {} loaded (hash {:?}, {} deps) but (hash {:?}, {} deps) was written", label, diff, loaded[diff].0, loaded[diff].1.len(), expected[diff].0, expected[diff].1.len()),
                        replay,
                    );
                } else {
                    res.nontrivial += 1;
                    res.outcome("roundtrip-ok");
                }
            } else {
                // The format cannot hold this record: it may be dropped, but
                // nothing else may be loaded in its place and other records
                // must be intact.
                let mut ok = true;
                for (i, (a, b)) in loaded.iter().zip(&expected).enumerate() {
                    let unrepresentable_build = writes.iter().any(|(wb, deps, _)| *wb == i && deps.len() > 0xffff);
                    if unrepresentable_build {
                        if a.0.is_some() && a != b {
                            ok = false;
                        }
                    } else if a != b {
                        ok = false;
                    }
                }
                if ok {
                    res.outcome("unrepresentable-dropped");
                } else {
                    res.violation(
                        "unrepresentable-record-corrupts-log",
                        || format!("{}: a record that does not fit the format was written and the log now loads different content", label),
                        replay,
                    );
                }
            }
        }
    }
}

fn shapes_job(ctx: &mut Ctx, res: &mut ShardResult) {
    let job = ctx.job.clone();
    let mut idx = 0u64;
    let only: Option<u64> = ctx.replay.as_ref().and_then(|c| c["id"]["index"].as_u64());
    let mut go = |idx: u64| -> bool {
        match only {
            Some(o) => o == idx,
            None => idx % ctx.nshards == ctx.shard,
        }
    };
    // (a) output count x dependency count
    for nouts in 1..=3usize {
        for &ndeps in DEP_COUNTS {
            for utf8 in [false, true] {
                idx += 1;
                if !go(idx) {
                    continue;
                }
                ctx.marker.set(idx, format!("outs {} deps {}", nouts, ndeps).as_bytes());
                let outs: Vec<String> = (0..nouts).map(|i| format!("{}{}", if utf8 { "ö" } else { "o" }, i)).collect();
                let deps: Vec<String> = (0..ndeps).map(|i| format!("d/{}{}", if utf8 { "é" } else { "h" }, i)).collect();
                // a second build with an ordinary record after it, to see that
                // the log stays aligned
                let builds = vec![outs, vec!["other".to_string()]];
                let writes = vec![(0usize, deps, 0x1122334455667788u64 + ndeps as u64), (1usize, vec!["d/h0".to_string()], 42u64)];
                check_shape(&builds, &writes, &format!("{} outputs, {} dependencies", nouts, ndeps), json!({"index": idx}), &job, res);
            }
        }
    }
    // (b) name lengths at field boundaries, in output and dependency position
    for &len in NAME_LENS {
        for utf8 in [false, true] {
            for pos in 0..2 {
                idx += 1;
                if !go(idx) {
                    continue;
                }
                ctx.marker.set(idx, format!("name length {}", len).as_bytes());
                let long = name_of_len(if pos == 0 { "o" } else { "d" }, len, utf8);
                let (outs, deps) = if pos == 0 {
                    (vec![long, "o2".to_string()], vec!["dep".to_string()])
                } else {
                    (vec!["o1".to_string()], vec!["dep".to_string(), long])
                };
                let builds = vec![outs, vec!["other".to_string()]];
                let writes = vec![(0usize, deps, 7u64), (1usize, vec![], 8u64)];
                check_shape(&builds, &writes, &format!("name of {} bytes in {} position", len, if pos == 0 { "output" } else { "dependency" }), json!({"index": idx}), &job, res);
            }
        }
    }
    // (c) many records: superseded ones, interleaved builds, repeated deps
    for n in [2usize, 3, 10, 100] {
        idx += 1;
        if !go(idx) {
            continue;
        }
        let builds: Vec<Vec<String>> = (0..3).map(|b| vec![format!("out{}", b)]).collect();
        let mut writes = Vec::new();
        for i in 0..n {
            let b = i % 3;
            let deps: Vec<String> = (0..(i % 4)).map(|d| format!("dep{}", (d + i) % 5)).collect();
            writes.push((b, deps, 1000 + i as u64));
        }
        check_shape(&builds, &writes, &format!("{} interleaved records", n), json!({"index": idx}), &job, res);
    }
    // (d) a record made unusable by a manifest edit (its output moved away),
    //     of every size class, followed by records that must still load
    for ndeps in [0usize, 1, 100, 2000, 2728, 2729, 3000, 6000, 20000] {
        idx += 1;
        if !go(idx) {
            continue;
        }
        ctx.marker.set(idx, format!("unusable record with {} deps", ndeps).as_bytes());
        res.evaluations += 1;
        let old = vec![vec!["big".to_string(), "big2".to_string()], vec!["z1".to_string()], vec!["z2".to_string()]];
        let new = vec![vec!["big".to_string()], vec!["z1".to_string()], vec!["z2".to_string()], vec!["big2".to_string()]];
        let deps: Vec<String> = (0..ndeps).map(|i| format!("inc/h{}", i)).collect();
        let db = fresh_db();
        let label = format!("a record with {} dependencies whose outputs now belong to two steps, followed by two ordinary records", ndeps);
        let r = catch(|| -> Result<Vec<(Option<u64>, Vec<String>)>, String> {
            let mut s = DbSession::open(manifest_for(&old).as_bytes(), db).map_err(|e| format!("open: {}", e))?;
            s.write(1, &["d1".to_string()], 11).map_err(|e| e.to_string())?;
            s.write(0, &deps, 10).map_err(|e| e.to_string())?;
            s.write(2, &["d2".to_string()], 12).map_err(|e| e.to_string())?;
            s.write(1, &["d1".to_string(), "d3".to_string()], 13).map_err(|e| e.to_string())?;
            drop(s);
            let s2 = DbSession::open(manifest_for(&new).as_bytes(), db).map_err(|e| format!("reopen: {}", e))?;
            Ok(s2.loaded())
        });
        let expected: Vec<(Option<u64>, Vec<String>)> = vec![
            (None, vec![]),
            (Some(13), vec!["d1".to_string(), "d3".to_string()]),
            (Some(12), vec!["d2".to_string()]),
            (None, vec![]),
        ];
        let replay = || json!({"job": job, "id": {"index": idx}, "label": label});
        match r {
            Err(p) => res.violation(&p.key(), || format!("{}: panicked: {} at {}", label, p.message, p.location), replay),
            Ok(Err(e)) => res.violation("log-roundtrip-error", || format!("{}: {}", label, e), replay),
            Ok(Ok(loaded)) => {
                if loaded != expected {
                    res.violation("unusable-record-disturbs-later-records", || format!("{}: loaded {:?}", label, loaded.iter().map(|l| (l.0, l.1.len())).collect::<Vec<_>>()), replay);
                } else {
                    res.nontrivial += 1;
                    res.outcome("unusable-record-skipped");
                }
            }
        }
    }
    res.sample(|| json!({"shape": "outs 1..3 x deps {0,1,2,255,256,257,65535,65536,65537}; name lengths {1,2,127,128,255,256,1000,4095}"}));
}

/// Assignment of three file names to {not an output, step 1, step 2}.
fn decode_assign(code: usize) -> [usize; 3] {
    [code % 3, (code / 3) % 3, (code / 9) % 3]
}

const FILES: [&str; 3] = ["fa", "fb", "fc"];

fn steps_of(assign: [usize; 3]) -> Vec<Vec<String>> {
    let mut v = Vec::new();
    for s in 1..=2 {
        let outs: Vec<String> = (0..3).filter(|&i| assign[i] == s).map(|i| FILES[i].to_string()).collect();
        if !outs.is_empty() {
            v.push(outs);
        }
    }
    v
}

fn attribution_job(ctx: &mut Ctx, res: &mut ShardResult) {
    let job = ctx.job.clone();
    let only: Option<(u64, u64)> = ctx.replay.as_ref().map(|c| (c["id"]["old"].as_u64().unwrap_or(0), c["id"]["new"].as_u64().unwrap_or(0)));
    let mut idx = 0u64;
    for old in 1..27usize {
        for new in 1..27usize {
            idx += 1;
            match only {
                Some((o, n)) => {
                    if o != old as u64 || n != new as u64 {
                        continue;
                    }
                }
                None => {
                    if idx % ctx.nshards != ctx.shard {
                        continue;
                    }
                }
            }
            let old_steps = steps_of(decode_assign(old));
            let new_steps = steps_of(decode_assign(new));
            if old_steps.is_empty() || new_steps.is_empty() {
                continue;
            }
            ctx.marker.set(idx, format!("old {} new {}", old, new).as_bytes());
            // every order of the outputs inside each old statement, both
            // record orders
            let perm_lists: Vec<Vec<Vec<usize>>> = old_steps.iter().map(|s| permutations(s.len())).collect();
            let mut combos: Vec<Vec<Vec<usize>>> = vec![vec![]];
            for pl in &perm_lists {
                let mut next = Vec::new();
                for c in &combos {
                    for p in pl {
                        let mut c2 = c.clone();
                        c2.push(p.clone());
                        next.push(c2);
                    }
                }
                combos = next;
            }
            for combo in &combos {
                let ordered: Vec<Vec<String>> = old_steps.iter().zip(combo).map(|(s, p)| p.iter().map(|&i| s[i].clone()).collect()).collect();
                let n_old = ordered.len();
                let record_orders: Vec<Vec<usize>> = if n_old == 2 { vec![vec![0, 1], vec![1, 0], vec![0, 1, 0]] } else { vec![vec![0], vec![0, 0]] };
                for rorder in &record_orders {
                    res.evaluations += 1;
                    let id = json!({"old": old, "new": new});
                    let old_manifest = manifest_for(&ordered);
                    let new_manifest = manifest_for(&new_steps);
                    let db = fresh_db();
                    // records: (outs, deps, hash) in log order
                    let mut log: Vec<(Vec<String>, Vec<String>, u64)> = Vec::new();
                    let r = catch(|| -> Result<Vec<(Option<u64>, Vec<String>)>, String> {
                        let mut s = DbSession::open(old_manifest.as_bytes(), db).map_err(|e| format!("open: {}", e))?;
                        for (n, &b) in rorder.iter().enumerate() {
                            let deps = vec![format!("dep_of_{}_{}", b, n)];
                            let hash = 100 * (b as u64 + 1) + n as u64;
                            s.write(b, &deps, hash).map_err(|e| format!("write: {}", e))?;
                            log.push((ordered[b].clone(), deps, hash));
                        }
                        drop(s);
                        let s2 = DbSession::open(new_manifest.as_bytes(), db).map_err(|e| format!("reopen: {}", e))?;
                        Ok(s2.loaded())
                    });
                    let mut expected: Vec<(Option<u64>, Vec<String>)> = Vec::new();
                    for t in &new_steps {
                        let mut e: (Option<u64>, Vec<String>) = (None, vec![]);
                        for (outs, deps, hash) in &log {
                            if outs.iter().all(|o| t.contains(o)) {
                                e = (Some(*hash), deps.clone());
                            }
                        }
                        expected.push(e);
                    }
                    let label = format!("old manifest {:?} with records in order {:?}, new manifest {:?}", ordered, rorder, new_steps);
                    let replay = || json!({"job": job, "id": id, "label": label});
                    match r {
                        Err(p) => res.violation(&p.key(), || format!("{}: panicked: {} at {}", label, p.message, p.location), replay),
                        Ok(Err(e)) => res.violation("log-roundtrip-error", || format!("{}: {}", label, e), replay),
                        Ok(Ok(loaded)) => {
                            if loaded != expected {
                                let key = if loaded.iter().zip(&expected).any(|(a, b)| a.0.is_some() && b.0.is_none()) {
                                    "record-applied-to-step-that-does-not-produce-all-its-outputs"
                                } else if loaded.iter().zip(&expected).any(|(a, b)| a.0.is_none() && b.0.is_some()) {
                                    "applicable-record-not-applied"
                                } else {
                                    "wrong-record-applied"
                                };
                                res.violation(key, || format!("{}: loaded {:?}, expected {:?}", label, loaded, expected), replay);
                            } else {
                                if old != new {
                                    res.nontrivial += 1;
                                }
                                res.outcome(if expected.iter().any(|e| e.0.is_some()) { "some-record-applies" } else { "no-record-applies" });
                            }
                        }
                    }
                }
            }
            if res.samples.is_empty() || idx % 101 == 0 {
                res.sample(|| json!({"old_steps": old_steps, "new_steps": new_steps}));
            }
        }
    }
}

pub fn run(ctx: &mut Ctx) -> ShardResult {
    let mut res = ShardResult::default();
    let job = ctx.job.clone();
    match job.split(':').nth(1).unwrap_or("") {
        "shapes" => shapes_job(ctx, &mut res),
        "attribution" => attribution_job(ctx, &mut res),
        other => panic!("unknown dbrt job {}", other),
    }
    res
}
