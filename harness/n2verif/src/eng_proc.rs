//! The `proc` engine: the real n2 binary (hooks off) with real /bin/sh
//! commands that observe their own environment.  Enumerates the finite
//! configuration lattices of C16 (command strings, output volumes, exit codes,
//! signals, -j) and the binary-level parts of C12, C18 and C19.  The kernel's
//! interleaving of real children is not controllable: each configuration is
//! run once and the oracles only state what must hold for every interleaving.
//! Also hosts the exhaustive enumeration of the /showIncludes filter.

use crate::worker::{catch, Ctx, Tier};
use serde_json::{json, Value};
use std::process::Command;
use std::time::{Duration, Instant};
use vcore::enumerate::{count_upto, for_range, shard_range};
use vcore::report::ShardResult;

const N2: &str = "/verif/target/n2bin/debug/n2";

pub fn jobs(prop: &str, tier: Tier) -> Vec<(String, u64)> {
    match prop {
        "C09" => vec![("proc:msvc".into(), 4), (format!("proc:filter:{}", tier.pick(6, 7)), 16)],
        "C16" => vec![
            ("proc:fdleak".into(), 1),
            ("proc:dirs".into(), 1),
            ("proc:hide".into(), 1),
            ("proc:bytes".into(), 4),
            ("proc:msvc".into(), 4),
            ("proc:argv".into(), 8),
            ("proc:volume".into(), 8),
            ("proc:status".into(), 16),
            ("proc:parallel".into(), 5),
            (format!("proc:filter:{}", tier.pick(7, 8)), 16),
        ],
        "C18" => vec![("proc:flags".into(), 4)],
        "C05" => vec![("proc:status".into(), 16)],
        "C08" => vec![("proc:subdir".into(), 1)],
        "C02" | "C03" => vec![("proc:conform".into(), 8)],
        "C19" => vec![("proc:summary".into(), 1)],
        "C20" => vec![("proc:pty".into(), 16), ("proc:stall".into(), 4)],
        "C12" => vec![("proc:errors".into(), 1)],
        // a rule with both deps = msvc and a depfile still has its depfile read
        "C15" => vec![("proc:msvc".into(), 4)],
        _ => vec![],
    }
}

struct Out {
    stdout: Vec<u8>,
    code: Option<i32>,
}

/// Runs the n2 binary; if it does not finish within 90 s (generous: the
/// scenarios take well under a second on an idle machine, and a loaded machine
/// must not turn into a verdict) it is killed and the result says so (exit
/// code None, output `N2-TIMEOUT`).
fn n2(args: &[&str]) -> Out {
    use std::io::Read;
    let out_path = "n2.stdout.tmp";
    let f = std::fs::File::create(out_path).expect("stdout file");
    let f2 = f.try_clone().expect("clone");
    let mut child = Command::new(N2)
        .args(args)
        .stdin(std::process::Stdio::null())
        .stdout(f)
        .stderr(f2)
        .env_remove("NINJA_STATUS")
        .spawn()
        .expect("run n2 binary");
    let deadline = std::time::Instant::now() + std::time::Duration::from_secs(90);
    let code = loop {
        match child.try_wait().expect("wait") {
            Some(st) => break st.code(),
            None => {
                if std::time::Instant::now() > deadline {
                    let _ = child.kill();
                    let _ = child.wait();
                    let _ = std::fs::remove_file(out_path);
                    return Out {
                        stdout: b"N2-TIMEOUT".to_vec(),
                        code: None,
                    };
                }
                std::thread::sleep(std::time::Duration::from_millis(5));
            }
        }
    };
    let mut stdout = Vec::new();
    std::fs::File::open(out_path).and_then(|mut f| f.read_to_end(&mut stdout)).ok();
    let _ = std::fs::remove_file(out_path);
    Out { stdout, code }
}

fn fresh() {
    crate::exec::clear_dir();
}

fn ninja_escape_cmd(c: &str) -> String {
    c.replace('$', "$$")
}

fn find_all(hay: &[u8], needle: &[u8]) -> usize {
    if needle.is_empty() || hay.len() < needle.len() {
        return 0;
    }
    hay.windows(needle.len()).filter(|w| *w == needle).count()
}

// --- argv / environment ------------------------------------------------------

const PAYLOADS: &[&str] = &[
    "true",
    "echo 'single quoted  text' > q.out",
    "echo \"double quoted $HOME text\" > q.out",
    "echo a;echo b > q.out",
    "true && echo ok > q.out || echo no > q.out",
    "(cd . && echo sub) > q.out",
    "echo \\\\back\\\\slash 'it''s' > q.out",
    "echo ünïcödé ☃ > q.out",
    "x=1; echo $x ${x}2 $((x+1)) > q.out",
    "echo a\tb   c > q.out",
    "echo * ? [a] {b,c} ~ > q.out",
    "echo '#' not a comment | cat > q.out",
    "echo `echo tick` $(echo paren) > q.out",
    "echo : '|' '||' ':' > q.out 2>&1 </dev/null",
];

fn argv_job(ctx: &mut Ctx, res: &mut ShardResult) {
    let job = ctx.job.clone();
    for (i, payload) in PAYLOADS.iter().enumerate() {
        if i as u64 % ctx.nshards != ctx.shard && ctx.replay.is_none() {
            continue;
        }
        if let Some(c) = &ctx.replay {
            if c["index"].as_u64() != Some(i as u64) {
                continue;
            }
        }
        for variant in 0..3 {
            ctx.marker.set(i as u64, payload.as_bytes());
            fresh();
            res.evaluations += 1;
            // The command observes its own argv, stdin, descriptors and cwd.
            let probe = "cat /proc/$$/cmdline > cmdline.out; readlink /proc/$$/fd/0 > stdin.out; for f in /proc/$$/fd/*; do readlink $f; done > fds.out; pwd > pwd.out";
            let full = format!("{}; {}", payload, probe);
            let out_path = match variant {
                0 => "out",
                1 => "d1/d2/out",
                _ => "d 3/out",
            };
            let full = format!("{}; touch '{}'", full, out_path);
            let mut manifest = String::new();
            manifest.push_str(&format!("rule r\n  command = {}\n", ninja_escape_cmd(&full)));
            if variant == 1 {
                manifest.push_str("  rspfile = d1/rsp/$out.rsp\n  rspfile_content = $in -x \"q\" $$HOME é\n");
            }
            manifest.push_str(&format!("build {}: r in1 in2\n", out_path.replace(' ', "$ ")));
            std::fs::write("build.ninja", &manifest).unwrap();
            std::fs::write("in1", "1").unwrap();
            std::fs::write("in2", "2").unwrap();
            let o = n2(&[]);
            let replay = || json!({"job": job, "index": i, "variant": variant, "manifest": manifest});
            let text = String::from_utf8_lossy(&o.stdout).to_string();
            if o.code != Some(0) {
                res.violation("command-did-not-run-cleanly", || format!("payload {:?}: n2 exit {:?}, output:\n{}", payload, o.code, text), replay);
                continue;
            }
            let cmdline = std::fs::read("cmdline.out").unwrap_or_default();
            let mut expect = b"/bin/sh\0-c\0".to_vec();
            expect.extend_from_slice(full.as_bytes());
            expect.push(0);
            if cmdline != expect {
                res.violation("argv-differs-from-evaluated-command", || format!("command {:?} ran as {:?}", full, String::from_utf8_lossy(&cmdline)), replay);
                continue;
            }
            let stdin = std::fs::read_to_string("stdin.out").unwrap_or_default();
            if stdin.trim() != "/dev/null" {
                res.violation("stdin-not-dev-null", || format!("stdin of the command is {:?}", stdin), replay);
                continue;
            }
            let fds = std::fs::read_to_string("fds.out").unwrap_or_default();
            let mut pipes = std::collections::BTreeSet::new();
            let mut bad = Vec::new();
            for l in fds.lines() {
                if l == "/dev/null" || l.starts_with("/proc/") || l.ends_with("/fds.out") {
                    continue;
                }
                if l.starts_with("pipe:") {
                    pipes.insert(l.to_string());
                    continue;
                }
                bad.push(l.to_string());
            }
            if !bad.is_empty() || pipes.len() > 1 {
                res.violation("descriptor-leaked-into-command", || format!("descriptors seen by the command: {:?} (pipes {:?})", bad, pipes), replay);
                continue;
            }
            let cwd = std::env::current_dir().unwrap();
            let pwd = std::fs::read_to_string("pwd.out").unwrap_or_default();
            if std::path::Path::new(pwd.trim()) != cwd {
                res.violation("wrong-working-directory", || format!("command ran in {:?}, build directory is {:?}", pwd.trim(), cwd), replay);
                continue;
            }
            if !std::path::Path::new(out_path).exists() {
                res.violation("output-directory-not-created", || format!("{} was not created", out_path), replay);
                continue;
            }
            if variant == 1 {
                let rsp = std::fs::read("d1/rsp/d1/d2/out.rsp").unwrap_or_default();
                let want = "in1 in2 -x \"q\" $HOME é".as_bytes();
                if rsp != want {
                    res.violation("rspfile-content-differs", || format!("rspfile holds {:?}, expected {:?}", String::from_utf8_lossy(&rsp), String::from_utf8_lossy(want)), replay);
                    continue;
                }
            }
            res.nontrivial += 1;
            res.outcome("argv-ok");
        }
    }
    res.sample(|| json!({"payloads": PAYLOADS}));
}

// --- output volume ------------------------------------------------------------

const SIZES: &[usize] = &[0, 1, 4095, 4096, 4097, 8191, 8192, 65535, 65536, 65537, 200_000];

fn volume_job(ctx: &mut Ctx, res: &mut ShardResult) {
    let job = ctx.job.clone();
    let mut idx = 0u64;
    for &size in SIZES {
        for mode in ["stdout", "stderr", "alternate", "twosteps"] {
            idx += 1;
            if let Some(c) = &ctx.replay {
                if c["index"].as_u64() != Some(idx) {
                    continue;
                }
            } else if idx % ctx.nshards != ctx.shard {
                continue;
            }
            ctx.marker.set(idx, format!("{} {}", size, mode).as_bytes());
            fresh();
            res.evaluations += 1;
            let gen = format!("head -c {} /dev/zero | tr '\\0' x", size);
            let (cmd, expect): (String, Vec<u8>) = match mode {
                "stdout" => (format!("printf START; {}; printf END", gen), [b"START".to_vec(), vec![b'x'; size], b"END".to_vec()].concat()),
                "stderr" => (format!("(printf START; {}; printf END) >&2", gen), [b"START".to_vec(), vec![b'x'; size], b"END".to_vec()].concat()),
                "alternate" => {
                    let chunks = 8;
                    let per = size / chunks;
                    let mut e = b"START".to_vec();
                    for i in 0..chunks {
                        e.extend_from_slice(format!("o{}", i).as_bytes());
                        e.extend(vec![b'x'; per]);
                        e.extend_from_slice(format!("e{}", i).as_bytes());
                        e.extend(vec![b'y'; per]);
                    }
                    e.extend_from_slice(b"END");
                    (
                        format!("printf START; for i in 0 1 2 3 4 5 6 7; do printf o$i; head -c {per} /dev/zero | tr '\\0' x; printf e$i >&2; head -c {per} /dev/zero | tr '\\0' y >&2; done; printf END", per = per),
                        e,
                    )
                }
                _ => (format!("printf START; {}; printf END", gen), [b"START".to_vec(), vec![b'x'; size], b"END".to_vec()].concat()),
            };
            let mut manifest = format!("rule r\n  command = {}\n  description = STEP $out\nbuild a: r\n", ninja_escape_cmd(&cmd));
            if mode == "twosteps" {
                // a second, concurrent step with its own distinct payload
                let cmd2 = cmd.replace("START", "BEGIN2").replace("END", "FINISH2").replace(" x", " z");
                manifest.push_str(&format!("rule r2\n  command = {}\n  description = STEP2 $out\nbuild b: r2\n", ninja_escape_cmd(&cmd2)));
            }
            std::fs::write("build.ninja", &manifest).unwrap();
            let o = n2(&["-j", "2"]);
            let replay = || json!({"job": job, "index": idx, "size": size, "mode": mode});
            // Both commands fail to create their outputs (they only print),
            // which is fine: n2 reports success and the text is what matters.
            if find_all(&o.stdout, &expect) != 1 {
                let head: String = String::from_utf8_lossy(&o.stdout).chars().take(300).collect();
                res.violation(
                    "output-not-intact",
                    || format!("{} bytes via {}: the payload (START…END, {} bytes) appears {} times contiguously in n2's output ({} bytes): {:?}…", size, mode, expect.len(), find_all(&o.stdout, &expect), o.stdout.len(), head),
                    replay,
                );
                continue;
            }
            if find_all(&o.stdout, b"START") != 1 || find_all(&o.stdout, b"END") != 1 {
                res.violation("output-duplicated", || format!("{} bytes via {}: START/END markers appear more than once", size, mode), replay);
                continue;
            }
            if mode == "twosteps" {
                let e2: Vec<u8> = [b"BEGIN2".to_vec(), vec![b'z'; size], b"FINISH2".to_vec()].concat();
                if find_all(&o.stdout, &e2) != 1 {
                    res.violation("output-not-intact", || format!("{} bytes from the second concurrent command were not printed contiguously once", size), replay);
                    continue;
                }
            }
            res.nontrivial += 1;
            res.outcome(&format!("volume-ok-{}", mode));
        }
    }
    res.sample(|| json!({"sizes": SIZES}));
}

// --- exit status and signals ---------------------------------------------------

fn status_job(ctx: &mut Ctx, res: &mut ShardResult) {
    let job = ctx.job.clone();
    // (kind, number)
    let mut cases: Vec<(&str, i32)> = (0..=255).map(|c| ("exit", c)).collect();
    for sig in 1..=31 {
        if [19, 20, 21, 22].contains(&sig) {
            continue; // stop signals: the command would hang by definition
        }
        cases.push(("signal", sig));
    }
    // The same with other failure budgets: an interruption stops the build
    // whatever -k says (also when no -k is given); an ordinary failure with
    // budget left does not.
    // The signal sent by a shell builtin as the very first thing the command
    // does (no external command has run yet, so the shell still has the signal
    // mask and dispositions it was started with).
    cases.push(("sigfirst", 2));
    cases.push(("sigfirst", 15));
    cases.push(("sigint-nok", 2));
    cases.push(("sigint-k3", 2));
    cases.push(("exit-k3", 7));
    for (i, (kind, n)) in cases.iter().enumerate() {
        if let Some(c) = &ctx.replay {
            if c["index"].as_u64() != Some(i as u64) {
                continue;
            }
        } else if i as u64 % ctx.nshards != ctx.shard {
            continue;
        }
        ctx.marker.set(i as u64, format!("{} {}", kind, n).as_bytes());
        fresh();
        res.evaluations += 1;
        let cmd = match *kind {
            "sigfirst" => format!("kill -{} $$; echo survived; true", n),
            "exit" | "exit-k3" => format!("touch first; exit {}", n),
            _ => format!("touch first; kill -{} $$; sleep 0.05; true", n),
        };
        // `second` is independent and listed later: at -j1 it runs after
        // `first` unless the build stops.
        let manifest = format!(
            "rule r\n  command = {}\nrule t\n  command = touch $out\nbuild first: r\nbuild second: t\n",
            ninja_escape_cmd(&cmd)
        );
        std::fs::write("build.ninja", &manifest).unwrap();
        let o = match *kind {
            "sigint-nok" => n2(&["-j", "1"]),
            "sigint-k3" | "exit-k3" => n2(&["-j", "1", "-k", "3"]),
            _ => n2(&["-j", "1", "-k", "1"]),
        };
        let text = String::from_utf8_lossy(&o.stdout).to_string();
        let replay = || json!({"job": job, "index": i, "kind": kind, "n": n});
        if *kind == "exit-k3" {
            let second_built = std::path::Path::new("second").exists();
            if o.code == Some(0) || !text.contains("failed:") {
                res.violation("failure-reported-as-success", || format!("exit {} with -k 3: n2 exit {:?}\n{}", n, o.code, text), replay);
            } else if !second_built {
                res.violation("independent-step-not-run-within-budget", || format!("exit {} with -k 3: the independent step `second` was not built\n{}", n, text), replay);
            } else {
                res.outcome("status-failure-budget-left");
                res.nontrivial += 1;
            }
            continue;
        }
        let kind = &if kind.starts_with("sigint") || *kind == "sigfirst" { "signal" } else { *kind };
        let ignored_by_default = *kind == "signal" && [17, 18, 23, 28].contains(n);
        let success_expected = (*kind == "exit" && *n == 0) || ignored_by_default;
        // n2 (a Rust program) runs with SIGPIPE ignored and children inherit
        // that, so `kill -PIPE $$` is a no-op for them; either disposition is
        // accepted (the property does not speak about signal dispositions).
        // The same holds for any signal this process itself inherited as
        // ignored (e.g. SIGHUP under nohup): an ignored disposition survives
        // exec, so the command's `kill` is a no-op through no fault of n2.
        let inherited_ignored = *kind == "signal" && *n != 2 && unsafe {
            let mut old: libc::sigaction = std::mem::zeroed();
            libc::sigaction(*n, std::ptr::null(), &mut old) == 0 && old.sa_sigaction == libc::SIG_IGN
        };
        if *kind == "signal" && (*n == 13 || inherited_ignored) {
            let text_ok = (o.code == Some(0) && text.contains("now up to date")) || (o.code != Some(0) && text.contains(&format!("signal {}", n)));
            if !text_ok {
                res.violation("ignored-signal-neither-ignored-nor-failure", || format!("signal {} (ignored in the environment): n2 exit {:?}\n{}", n, o.code, text), replay);
            } else {
                res.outcome("status-ignored-signal");
            }
            continue;
        }
        let second_built = std::path::Path::new("second").exists();
        if success_expected {
            if o.code != Some(0) || !text.contains("now up to date") {
                res.violation("success-reported-as-failure", || format!("{} {}: n2 exit {:?}\n{}", kind, n, o.code, text), replay);
                continue;
            }
            res.outcome("status-success");
        } else if *kind == "signal" && *n == 2 {
            if o.code == Some(0) || !text.contains("interrupted") {
                res.violation("sigint-not-an-interruption", || format!("SIGINT: n2 exit {:?}\n{}", o.code, text), replay);
                continue;
            }
            if second_built {
                res.violation("build-continued-after-interrupt", || format!("SIGINT: the independent later step still ran\n{}", text), replay);
                continue;
            }
            res.outcome("status-interrupted");
        } else {
            if o.code == Some(0) || !text.contains("failed:") {
                res.violation("failure-reported-as-success", || format!("{} {}: n2 exit {:?}\n{}", kind, n, o.code, text), replay);
                continue;
            }
            if *kind == "signal" && !text.contains(&format!("signal {}", n)) {
                res.violation("signal-not-named", || format!("signal {}: output does not name it\n{}", n, text), replay);
                continue;
            }
            if second_built {
                // -k 1: nothing is started after the first failure
                res.violation("started-after-failure-budget", || format!("{} {}: `second` was built after the failure with -k 1\n{}", kind, n, text), replay);
                continue;
            }
            res.outcome(if *kind == "exit" { "status-failure" } else { "status-signal" });
        }
        res.nontrivial += 1;
    }
    res.sample(|| json!({"exit_codes": "0..=255", "signals": "1..=31 except 19-22"}));
}

// --- parallel output ----------------------------------------------------------

fn parallel_job(ctx: &mut Ctx, res: &mut ShardResult) {
    let job = ctx.job.clone();
    for (i, j) in [1usize, 2, 4, 8, 16].into_iter().enumerate() {
        if let Some(c) = &ctx.replay {
            if c["index"].as_u64() != Some(i as u64) {
                continue;
            }
        } else if i as u64 % ctx.nshards != ctx.shard {
            continue;
        }
        ctx.marker.set(i as u64, format!("-j {}", j).as_bytes());
        fresh();
        res.evaluations += 1;
        let n = 2 * j;
        let mut manifest = String::new();
        for t in 0..n {
            manifest.push_str(&format!(
                "rule r{t}\n  command = printf 'A{t}-'; sleep 0.0{d}; head -c 5000 /dev/zero | tr '\\0' {c}; sleep 0.02; printf -- '-B{t}\\n'; touch $out\n  description = T{t}\nbuild o{t}: r{t}\n",
                t = t,
                d = (t % 4) + 1,
                c = (b'a' + (t % 26) as u8) as char
            ));
        }
        std::fs::write("build.ninja", &manifest).unwrap();
        let o = n2(&["-j", &j.to_string()]);
        let replay = || json!({"job": job, "index": i, "j": j});
        let mut ok = o.code == Some(0);
        for t in 0..n {
            let block: Vec<u8> = [format!("A{}-", t).into_bytes(), vec![b'a' + (t % 26) as u8; 5000], format!("-B{}\n", t).into_bytes()].concat();
            if find_all(&o.stdout, &block) != 1 {
                ok = false;
            }
        }
        if !ok {
            let head: String = String::from_utf8_lossy(&o.stdout).chars().take(400).collect();
            res.violation("concurrent-output-interleaved-or-lost", || format!("-j {} with {} commands: some command's block is not printed contiguously exactly once (exit {:?}): {:?}", j, n, o.code, head), replay);
        } else {
            res.nontrivial += 1;
            res.outcome(&format!("parallel-ok-j{}", j));
        }
    }
}

// --- descriptors across concurrently running commands ---------------------------

fn fdleak_job(ctx: &mut Ctx, res: &mut ShardResult) {
    let job = ctx.job.clone();
    for j in [3usize, 4] {
        ctx.marker.set(j as u64, b"fdleak");
        fresh();
        res.evaluations += 1;
        // `long` runs until `probe` has run (it waits for the file `release`,
        // for at most 60 s); `gate` is short; `probe` (after gate) lists its
        // descriptors while `long` is still running and then releases it.  No
        // wall-clock assumption decides the verdict: if gate's completion is
        // only noticed when `long` exits, probe finds long.done.
        let manifest = "rule long\n  command = i=0; while [ ! -e release ] && [ $$i -lt 1200 ]; do sleep 0.05; i=$$((i+1)); done; touch long.done; touch $out\nrule gate\n  command = sleep 0.1; touch $out\nrule probe\n  command = for f in /proc/$$$$/fd/*; do readlink $$f; done > fds.out; if [ -e long.done ]; then echo late > late.out; fi; touch release; touch $out\nbuild l: long\nbuild g: gate\nbuild p: probe g\nbuild l2: long\n";
        std::fs::write("build.ninja", manifest).unwrap();
        let o = n2(&["-j", &j.to_string(), "l", "p"]);
        let replay = || json!({"job": job, "index": j});
        if o.code != Some(0) {
            res.violation("command-did-not-run-cleanly", || format!("exit {:?}: {}", o.code, String::from_utf8_lossy(&o.stdout)), replay);
            continue;
        }
        let fds = std::fs::read_to_string("fds.out").unwrap_or_default();
        let mut pipes = std::collections::BTreeSet::new();
        let mut bad = Vec::new();
        for l in fds.lines() {
            if l == "/dev/null" || l.starts_with("/proc/") || l.ends_with("/fds.out") {
                continue;
            }
            if l.starts_with("pipe:") {
                pipes.insert(l.to_string());
                continue;
            }
            bad.push(l.to_string());
        }
        if !bad.is_empty() || pipes.len() > 1 {
            res.violation("descriptor-leaked-into-command", || format!("a command started while another was running sees descriptors {:?} and pipes {:?} (its own output pipe is the only one allowed)", bad, pipes), replay);
            continue;
        }
        if std::path::Path::new("late.out").exists() {
            res.violation("completion-delayed-by-unrelated-command", || "a short command's completion was only noticed after an unrelated long-running command exited (its pipe was held open elsewhere)".to_string(), replay);
            continue;
        }
        res.nontrivial += 1;
        res.outcome("fdleak-ok");
    }
}

/// Output directories are created before every command that needs them, even
/// if an earlier command of the same invocation removed them again.
fn dirs_job(ctx: &mut Ctx, res: &mut ShardResult) {
    let job = ctx.job.clone();
    ctx.marker.set(0, b"dirs");
    for j in [1usize, 2] {
        fresh();
        res.evaluations += 1;
        let manifest = "rule gen\n  command = echo generated > $out\nrule pkg\n  command = cat $in > $out && rm -rf stage\nbuild stage/a.txt: gen\nbuild pkg1.out: pkg stage/a.txt\nbuild stage/b.txt: gen || pkg1.out\nbuild pkg2.out: pkg stage/b.txt\nbuild deep/x/y/z.txt: gen || pkg2.out\n";
        std::fs::write("build.ninja", manifest).unwrap();
        let o = n2(&["-j", &j.to_string()]);
        let text = String::from_utf8_lossy(&o.stdout).to_string();
        if o.code != Some(0) || !std::path::Path::new("pkg2.out").exists() || !std::path::Path::new("deep/x/y/z.txt").exists() {
            res.violation("output-directory-not-created", || format!("a later step's output directory was not (re)created: exit {:?}\n{}", o.code, text), || json!({"job": job, "index": j}));
        } else {
            res.nontrivial += 1;
            res.outcome("dirs-ok");
        }
    }
}

/// deps=msvc with notes that straddle pipe reads: split in the middle of a
/// line with a pause, and far more than one 4 KiB read at once.
fn msvc_job(ctx: &mut Ctx, res: &mut ShardResult) {
    let job = ctx.job.clone();
    for variant in 0..4u64 {
        if ctx.replay.is_none() && variant % ctx.nshards != ctx.shard {
            continue;
        }
        if let Some(c) = &ctx.replay {
            if c["index"].as_u64() != Some(variant) {
                continue;
            }
        }
        ctx.marker.set(variant, b"msvc");
        fresh();
        res.evaluations += 1;
        if variant >= 2 {
            // A rule with both `deps = msvc` and a depfile (clang-cl writes
            // both): the notes are still not for the user's eyes, whether the
            // command succeeds (2) or fails (3).
            std::fs::write("both.h", "h").unwrap();
            std::fs::write("dep_only.h", "h").unwrap();
            std::fs::write("src.c", "c").unwrap();
            // (the depfile names a header the notes do not mention: it must be
            // read although the rule also says deps = msvc)
            let tail = if variant == 2 { "printf 'out.obj: dep_only.h\\n' > out.obj.d; touch $out" } else { "exit 3" };
            let manifest = format!("rule cc\n  command = printf 'visible line\\nNote: including file: both.h\\nlast line\\n'; {}\n  description = COMPILE\n  deps = msvc\n  depfile = out.obj.d\nbuild out.obj: cc src.c\n", tail);
            std::fs::write("build.ninja", &manifest).unwrap();
            let o1 = n2(&[]);
            let t1 = String::from_utf8_lossy(&o1.stdout).to_string();
            let replay = || json!({"job": job, "index": variant});
            if (variant == 2) != (o1.code == Some(0)) {
                res.violation("command-did-not-run-cleanly", || format!("msvc+depfile variant {}: exit {:?}: {}", variant, o1.code, t1), replay);
            } else if t1.contains("Note: including file") {
                res.violation("showincludes-note-shown-to-user", || format!("rule with deps = msvc and a depfile: n2's output still contains a note line:\n{}", t1.chars().take(600).collect::<String>()), replay);
            } else if !(t1.contains("visible line") && t1.contains("last line")) {
                res.violation("ordinary-output-lost", || format!("the non-note lines are missing from n2's output:\n{}", t1.chars().take(600).collect::<String>()), replay);
            } else if variant == 2 {
                std::thread::sleep(std::time::Duration::from_millis(20));
                std::fs::write("dep_only.h", "changed").unwrap();
                let o3 = n2(&[]);
                let t3 = String::from_utf8_lossy(&o3.stdout).to_string();
                if !t3.contains("ran 1 task") {
                    res.violation("reported-header-not-remembered", || format!("after editing dep_only.h (named by the depfile of a rule with deps = msvc) the step was not rebuilt: {}", t3), replay);
                } else {
                    res.nontrivial += 1;
                    res.outcome("msvc-with-depfile-ok");
                }
            } else {
                res.nontrivial += 1;
                res.outcome("msvc-with-depfile-failing-ok");
            }
            continue;
        }
        let headers: Vec<String> = if variant == 0 { vec!["split.h".to_string()] } else { (0..300).map(|i| format!("include/dir{}/header_number_{}.h", i % 7, i)).collect() };
        for h in &headers {
            if let Some(p) = std::path::Path::new(h).parent() {
                std::fs::create_dir_all(p).ok();
            }
            std::fs::write(h, "h").unwrap();
        }
        let cmd = if variant == 0 {
            "printf 'visible line\\nNote: inclu'; sleep 0.4; printf 'ding file: split.h\\nlast line\\n'; touch $out".to_string()
        } else {
            "cat notes.txt; echo visible-tail; touch $out".to_string()
        };
        if variant == 1 {
            let mut notes = String::from("visible-head\n");
            for h in &headers {
                notes.push_str(&format!("Note: including file: {}\n", h));
            }
            std::fs::write("notes.txt", notes.replace("\\n", "\n")).unwrap();
        }
        let manifest = format!("rule cc\n  command = {}\n  description = COMPILE\n  deps = msvc\nbuild out.obj: cc src.c\n", cmd);
        std::fs::write("build.ninja", &manifest).unwrap();
        std::fs::write("src.c", "c").unwrap();
        let o1 = n2(&[]);
        let t1 = String::from_utf8_lossy(&o1.stdout).to_string();
        let replay = || json!({"job": job, "index": variant});
        if o1.code != Some(0) {
            res.violation("command-did-not-run-cleanly", || format!("exit {:?}: {}", o1.code, t1), replay);
            continue;
        }
        if t1.contains("Note: including file") || t1.contains("ding file:") || t1.contains("header_number_") {
            res.violation("showincludes-note-shown-to-user", || format!("n2's output still contains (part of) a note line:\n{}", t1.chars().take(600).collect::<String>()), replay);
            continue;
        }
        let visible_ok = if variant == 0 { t1.contains("visible line") && t1.contains("last line") } else { t1.contains("visible-head") && t1.contains("visible-tail") };
        if !visible_ok {
            res.violation("ordinary-output-lost", || format!("the non-note lines are missing from n2's output:\n{}", t1.chars().take(600).collect::<String>()), replay);
            continue;
        }
        let o2 = n2(&[]);
        let t2 = String::from_utf8_lossy(&o2.stdout).to_string();
        if !t2.contains("no work to do") {
            res.violation("rebuilt-without-change", || format!("second invocation: {}", t2), replay);
            continue;
        }
        // Every reported header is remembered: editing any of them rebuilds.
        let probe: Vec<&String> = if variant == 0 { headers.iter().collect() } else { vec![&headers[0], &headers[40], &headers[150], &headers[299]] };
        let mut ok = true;
        for h in probe {
            std::thread::sleep(std::time::Duration::from_millis(20));
            std::fs::write(h, format!("changed {}", h)).unwrap();
            let o3 = n2(&[]);
            let t3 = String::from_utf8_lossy(&o3.stdout).to_string();
            if !t3.contains("ran 1 task") {
                res.violation("reported-header-not-remembered", || format!("after editing {} the step was not rebuilt: {}", h, t3), replay);
                ok = false;
                break;
            }
        }
        if ok {
            res.nontrivial += 1;
            res.outcome("msvc-ok");
        }
    }
}

// --- conformance: scripted executor vs. real processes ------------------------------

/// The same short histories are played twice: in-process under the scripted,
/// gated executor (what every sched/hist/crash check uses) and through the
/// shipped binary with real shell commands that log their own execution.  The
/// set of commands run by every invocation and the exit status must agree.
fn conform_job(ctx: &mut Ctx, res: &mut ShardResult) {
    use crate::eng_hist::{apply_edit, edit_alphabet, initial, run_once, templates, EditOp};
    use crate::exec::BuildResult;
    crate::exec::install_hooks();
    let job = ctx.job.clone();
    let all = templates();
    let names = ["depfile-chain", "msvc-chain", "diamond", "rspfile", "two-objects", "restat-upstream"];
    let mut idx = 0u64;
    for tn in names {
        let t = all.iter().find(|t| t.name == tn).expect("template");
        // the edit alphabet of the built state
        std::fs::create_dir_all("sim").unwrap();
        std::env::set_current_dir("sim").unwrap();
        let root = initial(t);
        let (r0, _) = run_once(t, root.sim.clone(), &[], 1, None, false, vec![], None);
        let mut built = root.clone();
        built.sim = r0.sim.clone();
        built.snap = crate::exec::snapshot();
        let edits: Vec<EditOp> = edit_alphabet(t, &built).into_iter().filter(|e| !matches!(e, EditOp::Variant(_) | EditOp::GenVariant(_) | EditOp::RemoveSource(_) | EditOp::DepfileGone(_))).collect();
        std::env::set_current_dir("..").unwrap();
        for e in std::iter::once(None).chain(edits.iter().map(Some)) {
            idx += 1;
            if let Some(c) = &ctx.replay {
                if c["index"].as_u64() != Some(idx) {
                    continue;
                }
            } else if idx % ctx.nshards != ctx.shard {
                continue;
            }
            ctx.marker.set(idx, format!("{} {:?}", tn, e).as_bytes());
            res.evaluations += 1;
            // --- scripted side
            fresh();
            std::fs::create_dir_all("sim").unwrap();
            std::env::set_current_dir("sim").unwrap();
            let mut node = initial(t);
            let (r1, _) = run_once(t, node.sim.clone(), &[], 1, None, false, vec![], None);
            let ran1: Vec<String> = r1.sim.ran.iter().map(|r| r.cmdline.clone()).collect();
            node.sim = r1.sim.clone();
            if let Some(e) = e {
                apply_edit(t, &mut node, e);
            }
            let (r2, _) = run_once(t, node.sim.clone(), &[], 1, None, false, vec![], None);
            let ran2: Vec<String> = r2.sim.ran.iter().skip(r1.sim.ran.len()).map(|r| r.cmdline.clone()).collect();
            let ok2 = matches!(r2.result, BuildResult::Success(_));
            std::env::set_current_dir("..").unwrap();
            // --- real side
            std::fs::create_dir_all("real").unwrap();
            std::env::set_current_dir("real").unwrap();
            let p = t.variants[0].clone();
            let mut rp = p.clone();
            for st in rp.steps.iter_mut() {
                if st.phony {
                    continue;
                }
                let key = st.outs[0].clone();
                let mut c = format!("echo '{}' >> ran.log", st.cmdline);
                for o in st.outs.iter().chain(st.implicit_outs.iter()) {
                    if t.skip_outputs.contains(o) {
                        continue;
                    }
                    if t.restat_like.contains(&key) {
                        // leave the output alone when its content would not change
                        c.push_str(&format!("; cat {} > {}.new 2>/dev/null; if cmp -s {}.new {}; then rm {}.new; else mv {}.new {}; fi", st.dirtying_ins().iter().map(|x| x.as_str()).collect::<Vec<_>>().join(" "), o, o, o, o, o, o));
                    } else {
                        c.push_str(&format!("; date +%N > {}", o));
                    }
                }
                if let Some(df) = &st.depfile {
                    c.push_str(&format!("; printf '%s: %s\\n' {} \"$$(cat reports_{}.txt)\" > {}", key, key, df));
                }
                if st.msvc {
                    c.push_str(&format!("; for h in $$(cat reports_{}.txt); do echo \"Note: including file: $$h\"; done", key));
                }
                if let Some(files) = t.side_touch.get(&key) {
                    for f in files {
                        c.push_str(&format!("; touch {}", f));
                    }
                }
                st.cmdline = c;
            }
            // manifest_text escapes `$` itself; undo the double escaping above
            for st in rp.steps.iter_mut() {
                st.cmdline = st.cmdline.replace("$$", "$");
            }
            std::fs::write("build.ninja", rp.manifest_text()).unwrap();
            for sfile in p.sources() {
                std::fs::write(&sfile, format!("source {}", sfile)).unwrap();
            }
            for h in &t.headers {
                std::fs::write(h, "h").unwrap();
            }
            let write_reports = |reports: &std::collections::BTreeMap<String, Vec<String>>| {
                for st in &p.steps {
                    let key = &st.outs[0];
                    let r = reports.get(key).cloned().unwrap_or_default();
                    std::fs::write(format!("reports_{}.txt", key), r.join(" ")).unwrap();
                }
            };
            write_reports(&t.reports);
            let run_real = || -> (Vec<String>, bool) {
                let _ = std::fs::remove_file("ran.log");
                let o = n2(&["-j", "1"]);
                let log = std::fs::read_to_string("ran.log").unwrap_or_default();
                (log.lines().map(|l| l.to_string()).collect(), o.code == Some(0))
            };
            let (real1, _) = run_real();
            std::thread::sleep(std::time::Duration::from_millis(15));
            if let Some(e) = e {
                match e {
                    EditOp::Touch(f) => std::fs::write(f, format!("edited {}", idx)).unwrap(),
                    EditOp::RemoveOut(f) => {
                        let _ = std::fs::remove_file(f);
                    }
                    EditOp::TouchOut(f) => {
                        let data = std::fs::read(f).unwrap_or_default();
                        std::fs::write(f, data).unwrap();
                    }
                    EditOp::RemoveHeader(h) => {
                        let _ = std::fs::remove_file(h);
                        let mut r = node.sim.reports.clone();
                        for v in r.values_mut() {
                            v.retain(|x| x != h);
                        }
                        write_reports(&r);
                    }
                    EditOp::Reports(_, _) => {
                        write_reports(&node.sim.reports);
                        // the source was edited too
                        for st in &p.steps {
                            if Some(&st.outs[0]) == match e { EditOp::Reports(k, _) => Some(k), _ => None } {
                                if let Some(src) = st.dirtying_ins().first() {
                                    std::fs::write(src, format!("edited {}", idx)).unwrap();
                                }
                            }
                        }
                    }
                    _ => {}
                }
            }
            std::thread::sleep(std::time::Duration::from_millis(15));
            let (real2, real_ok2) = run_real();
            std::env::set_current_dir("..").unwrap();
            let norm = |v: &Vec<String>| {
                let mut x = v.clone();
                x.sort();
                x
            };
            let replay = || json!({"job": job, "index": idx});
            if norm(&ran1) != norm(&real1) || norm(&ran2) != norm(&real2) || ok2 != real_ok2 {
                res.violation(
                    "scripted-and-real-executor-disagree",
                    || format!("template {}, edit {:?}: scripted run sets {:?} then {:?} (ok {}), real processes {:?} then {:?} (ok {})", tn, e, ran1, ran2, ok2, real1, real2, real_ok2),
                    replay,
                );
            } else {
                if !ran2.is_empty() {
                    res.nontrivial += 1;
                }
                res.outcome(&format!("conform-ok-{}", tn));
            }
        }
    }
    res.sample(|| json!({"templates": names}));
}

// --- the fancy progress display on a real pty (C20) -------------------------------

/// n2 under a pseudo terminal of a given width, with descriptions and output
/// lines that place multi-byte characters around every cut position while
/// commands run long enough for the display thread to render them.  A render
/// problem must not abort or alter the build.
fn pty_job(ctx: &mut Ctx, res: &mut ShardResult) {
    let job = ctx.job.clone();
    let mut idx = 0u64;
    for cols in [10usize, 11, 12, 19, 20, 21, 40] {
        for unit in ["é", "€", "😀", "a"] {
            for shift in 0..4usize {
                idx += 1;
                if let Some(c) = &ctx.replay {
                    if c["index"].as_u64() != Some(idx) {
                        continue;
                    }
                } else if idx % ctx.nshards != ctx.shard {
                    continue;
                }
                ctx.marker.set(idx, format!("cols {} unit {} shift {}", cols, unit, shift).as_bytes());
                fresh();
                res.evaluations += 1;
                let mut desc = "x".repeat(shift);
                while desc.len() < cols + 12 {
                    desc.push_str(unit);
                }
                // two steps: the first prints a long line (shown as the last
                // output line) and takes long enough to be rendered; the second
                // depends on it.
                let manifest = format!(
                    "rule slow\n  command = printf '%s\\n' '{d}'; sleep 0.7; touch $out\n  description = {d}\nrule quick\n  command = touch $out\n  description = {d} second\nbuild first: slow\nbuild second: quick first\n",
                    d = desc
                );
                std::fs::write("build.ninja", &manifest).unwrap();
                let inner = format!("stty cols {} rows 24; {} -j 2; echo EXIT=$?", cols, N2);
                let o = Command::new("script")
                    .args(["-qfc", &inner, "/dev/null"])
                    .stdin(std::process::Stdio::null())
                    .output();
                let replay = || json!({"job": job, "index": idx});
                let Ok(o) = o else {
                    res.violation("machinery:script-missing", || "util-linux `script` could not be run".into(), replay);
                    return;
                };
                let text = String::from_utf8_lossy(&o.stdout).to_string();
                let ok = text.contains("EXIT=0") && std::path::Path::new("first").exists() && std::path::Path::new("second").exists();
                if !ok {
                    let tail: String = text.chars().rev().take(500).collect::<String>().chars().rev().collect();
                    res.violation(
                        "display-problem-broke-the-build",
                        || format!("{} columns, description made of {:?} (shift {}): the build did not complete normally under a terminal; end of output: {:?}", cols, unit, shift, tail),
                        replay,
                    );
                } else {
                    res.nontrivial += 1;
                    res.outcome(&format!("pty-ok-{}", cols));
                }
            }
        }
    }
}

// --- every byte value (C16) ------------------------------------------------------------

/// A command's output is bytes, not text: every byte value 1..=255 (and NUL
/// in a second case), on stdout and on stderr, from a succeeding and from a
/// failing command, must come out of n2 (non-tty) unchanged, once.
fn bytes_job(ctx: &mut Ctx, res: &mut ShardResult) {
    let job = ctx.job.clone();
    let mut idx = 0u64;
    for with_nul in [false, true] {
        for stream in ["1", "2"] {
            for fail in [false, true] {
                idx += 1;
                if let Some(c) = &ctx.replay {
                    if c["index"].as_u64() != Some(idx) {
                        continue;
                    }
                } else if idx % ctx.nshards != ctx.shard {
                    continue;
                }
                ctx.marker.set(idx, b"bytes");
                fresh();
                res.evaluations += 1;
                let mut payload: Vec<u8> = b"BYTES<".to_vec();
                let mut esc = String::from("BYTES<");
                for b in (if with_nul { 0u16 } else { 1u16 })..=255 {
                    // (a newline inside the payload would be fine too, but keep
                    // the block on one line so that it is one "last line")
                    if b == 10 {
                        continue;
                    }
                    payload.push(b as u8);
                    esc.push_str(&format!("\\{:03o}", b));
                }
                payload.extend_from_slice(b">END");
                esc.push_str(">END");
                // the escapes are for printf(1); `%` must be doubled for it and `$` for ninja
                let manifest = format!(
                    "rule r\n  command = printf '{}\\n' >&{}; {}\n  description = BYTES\nbuild o: r\n",
                    esc.replace('%', "%%"),
                    stream,
                    if fail { "exit 3" } else { "touch $out" }
                );
                std::fs::write("build.ninja", manifest).unwrap();
                let o = n2(&["-j", "1"]);
                let replay = || json!({"job": job, "index": idx});
                if fail != (o.code != Some(0)) {
                    res.violation("command-did-not-run-cleanly", || format!("exit {:?}", o.code), replay);
                    continue;
                }
                let n = find_all(&o.stdout, &payload);
                if n != 1 {
                    res.violation(
                        "output-bytes-altered",
                        || format!("a command printed every byte value {}..=255 on fd {} ({}); the block appears {} times in n2's output (bytes that are not valid UTF-8, or NUL, were altered or dropped)", if with_nul { 0 } else { 1 }, stream, if fail { "then failed" } else { "and succeeded" }, n),
                        replay,
                    );
                } else {
                    res.nontrivial += 1;
                    res.outcome("bytes-ok");
                }
            }
        }
    }
}

// --- edits confined to a subninja file (C08) --------------------------------------------

/// A history on the real binary in which only a subninja'd file is edited: it
/// gains a private `builddir` binding and a new step, then loses them again.
/// The steps whose statements did not change must not re-run, and the log must
/// stay where the top-level scope puts it.
fn subdir_job(ctx: &mut Ctx, res: &mut ShardResult) {
    let job = ctx.job.clone();
    for (idx, top_builddir) in [false, true].iter().enumerate() {
        let idx = idx as u64;
        if let Some(c) = &ctx.replay {
            if c["index"].as_u64() != Some(idx) {
                continue;
            }
        }
        ctx.marker.set(idx, b"subdir");
        fresh();
        res.evaluations += 1;
        let top = format!(
            "{}rule cp\n  command = cp $in $out && echo $out >> ran.log\nbuild a: cp src\nbuild b: cp a\nsubninja sub.ninja\n",
            if *top_builddir { "builddir = top_out\n" } else { "" }
        );
        std::fs::write("build.ninja", &top).unwrap();
        std::fs::write("src", "s").unwrap();
        std::fs::write("src2", "s2").unwrap();
        let sub_plain = "build c: cp src2\n";
        let sub_edited = "builddir = obj\nbuild c: cp src2\nbuild $builddir/d: cp src2\n";
        let replay = || json!({"job": job, "index": idx});
        let ran = || -> Vec<String> {
            let t = std::fs::read_to_string("ran.log").unwrap_or_default();
            let _ = std::fs::remove_file("ran.log");
            let mut v: Vec<String> = t.lines().map(|l| l.to_string()).collect();
            v.sort();
            v
        };
        let log_at = if *top_builddir { "top_out/.n2_db" } else { ".n2_db" };
        let mut failed = false;
        let steps: [(&str, &str, Vec<&str>); 5] = [
            ("first build", sub_plain, vec!["a", "b", "c"]),
            ("repeat", sub_plain, vec![]),
            ("subninja file gains a private builddir and a step", sub_edited, vec!["obj/d"]),
            ("repeat after the edit", sub_edited, vec![]),
            ("subninja file edited back", sub_plain, vec![]),
        ];
        for (what, sub, expect) in steps.iter() {
            std::fs::write("sub.ninja", sub).unwrap();
            let o = n2(&["-j", "1"]);
            let got = ran();
            let exp: Vec<String> = expect.iter().map(|s| s.to_string()).collect();
            let stray = ["obj/.n2_db", "third_party/.n2_db"].iter().any(|p| std::path::Path::new(p).exists());
            if o.code != Some(0) || got != exp || !std::path::Path::new(log_at).exists() || stray {
                res.violation(
                    "unchanged-steps-rerun-after-subninja-edit",
                    || format!("{} (top-level builddir: {}): ran {:?}, expected {:?}; exit {:?}; log at {}: {}; a second log appeared: {}\n{}", what, top_builddir, got, exp, o.code, log_at, std::path::Path::new(log_at).exists(), stray, String::from_utf8_lossy(&o.stdout)),
                    replay,
                );
                failed = true;
                break;
            }
        }
        if !failed {
            res.nontrivial += 1;
            res.outcome("subninja-edit-ok");
        }
    }
}

// --- a terminal that stops reading (C20) ----------------------------------------------

/// n2 on a pty whose other side is not read for a while: a finished command
/// with a large output makes one frame bigger than the pty buffer, so the
/// display thread blocks in write() - for `stall_ms` after the buffer is seen
/// full - before the terminal is drained.  The build must still complete.
fn stall_job(ctx: &mut Ctx, res: &mut ShardResult) {
    use std::os::fd::{AsRawFd, FromRawFd, OwnedFd};
    let job = ctx.job.clone();
    let cases: [(usize, u64); 4] = [(400_000, 1000), (400_000, 600), (120_000, 1500), (30_000, 800)];
    for (idx, (bytes, stall_ms)) in cases.iter().enumerate() {
        let idx = idx as u64;
        if let Some(c) = &ctx.replay {
            if c["index"].as_u64() != Some(idx) {
                continue;
            }
        } else if idx % ctx.nshards != ctx.shard {
            continue;
        }
        ctx.marker.set(idx, format!("stall {} bytes {} ms", bytes, stall_ms).as_bytes());
        fresh();
        res.evaluations += 1;
        let manifest = format!(
            "rule big\n  command = head -c {} /dev/zero | tr '\\0' x; echo; touch $out\n  description = BIG\nrule t\n  command = sleep 0.2; touch $out\n  description = NEXT $out\nbuild out1: big\nbuild out2: t out1\nbuild out3: t out2\n",
            bytes
        );
        std::fs::write("build.ninja", &manifest).unwrap();
        let (mut master, mut slave) = (0i32, 0i32);
        let mut ws: libc::winsize = unsafe { std::mem::zeroed() };
        ws.ws_col = 80;
        ws.ws_row = 24;
        let rc = unsafe { libc::openpty(&mut master, &mut slave, std::ptr::null_mut(), std::ptr::null(), &ws) };
        let replay = || json!({"job": job, "index": idx});
        if rc != 0 {
            res.violation("machinery:openpty", || "openpty failed".into(), replay);
            return;
        }
        let slave_fd = unsafe { OwnedFd::from_raw_fd(slave) };
        let master_fd = unsafe { OwnedFd::from_raw_fd(master) };
        // stdin is the pty too: n2 asks fd 0 for the window size
        let child = Command::new(N2)
            .args(["-j", "1"])
            .stdin(std::process::Stdio::from(slave_fd.try_clone().expect("dup")))
            .stdout(std::process::Stdio::from(slave_fd.try_clone().expect("dup")))
            .stderr(std::process::Stdio::from(slave_fd))
            .spawn();
        let Ok(mut child) = child else {
            res.violation("machinery:spawn", || "cannot run n2".into(), replay);
            return;
        };
        let m = master_fd.as_raw_fd();
        let pending = |fd: i32| -> i32 {
            let mut n: libc::c_int = 0;
            unsafe {
                libc::ioctl(fd, libc::FIONREAD, &mut n);
            }
            n
        };
        // Phase 1: do not read; wait until the buffer holds something and has
        // stopped growing (n2 is blocked in write), or n2 has exited.
        let t0 = Instant::now();
        let mut last = -1;
        let mut stable_since = Instant::now();
        let mut exited = None;
        while t0.elapsed() < Duration::from_secs(20) {
            if let Ok(Some(st)) = child.try_wait() {
                exited = Some(st);
                break;
            }
            let n = pending(m);
            if n != last {
                last = n;
                stable_since = Instant::now();
            } else if n > 0 && stable_since.elapsed() > Duration::from_millis(400) && std::path::Path::new("out1").exists() {
                break;
            }
            std::thread::sleep(Duration::from_millis(20));
        }
        let stalled = exited.is_none();
        if stalled {
            std::thread::sleep(Duration::from_millis(*stall_ms));
        }
        // Phase 2: drain until n2 exits.
        unsafe {
            let fl = libc::fcntl(m, libc::F_GETFL);
            libc::fcntl(m, libc::F_SETFL, fl | libc::O_NONBLOCK);
        }
        let mut seen = Vec::new();
        let t1 = Instant::now();
        let mut buf = [0u8; 65536];
        let status = loop {
            let n = unsafe { libc::read(m, buf.as_mut_ptr() as *mut libc::c_void, buf.len()) };
            if n > 0 {
                if seen.len() < 2_000_000 {
                    seen.extend_from_slice(&buf[..n as usize]);
                }
                continue;
            }
            if let Ok(Some(st)) = child.try_wait() {
                break Some(st);
            }
            if t1.elapsed() > Duration::from_secs(30) {
                let _ = child.kill();
                let _ = child.wait();
                break None;
            }
            std::thread::sleep(Duration::from_millis(10));
        };
        drop(master_fd);
        let built = std::path::Path::new("out3").exists();
        let ok = matches!(status, Some(st) if st.success()) && built;
        if !ok {
            let text = String::from_utf8_lossy(&seen).to_string();
            let tail: String = text.chars().rev().take(400).collect::<String>().chars().rev().collect();
            res.violation(
                "stalled-terminal-broke-the-build",
                || format!("a finished command printed {} bytes while the terminal was not being read for {} ms (n2 blocked in write: {}): n2 ended with {:?}, out3 built: {}; end of terminal output: {:?}", bytes, stall_ms, stalled, status, built, tail),
                replay,
            );
        } else {
            res.nontrivial += 1;
            res.outcome(if stalled { "stall-ok-blocked" } else { "stall-ok-not-blocked" });
        }
    }
}

// --- hide_success ------------------------------------------------------------------

/// `hide_success` hides the output of a command that succeeded, never that of
/// one that failed.
fn hide_job(ctx: &mut Ctx, res: &mut ShardResult) {
    let job = ctx.job.clone();
    ctx.marker.set(0, b"hide");
    for (hide, fail) in [(true, true), (false, true), (true, false), (false, false)] {
        fresh();
        res.evaluations += 1;
        let manifest = format!(
            "rule r\n  command = echo OUT-LINE; echo ERR-LINE >&2; head -c 5000 /dev/zero | tr '\\0' p; {}\n  description = STEP\n{}build o: r\n",
            if fail { "exit 3" } else { "touch $out" },
            if hide { "  hide_success = 1\n" } else { "" }
        );
        std::fs::write("build.ninja", &manifest).unwrap();
        let o = n2(&[]);
        let text = String::from_utf8_lossy(&o.stdout).to_string();
        let shown = text.contains("OUT-LINE") && text.contains("ERR-LINE") && find_all(&o.stdout, &vec![b'p'; 5000]) == 1;
        let replay = || json!({"job": job, "hide": hide, "fail": fail});
        if fail && (!shown || o.code == Some(0)) {
            res.violation("failed-command-output-not-shown", || format!("hide_success={} and the command fails: its output must be shown and n2 must fail; exit {:?}\n{}", hide, o.code, text.chars().take(300).collect::<String>()), replay);
        } else if !fail && !hide && !shown {
            res.violation("output-not-intact", || format!("a succeeding command's output is missing:\n{}", text.chars().take(300).collect::<String>()), replay);
        } else {
            res.nontrivial += 1;
            res.outcome(&format!("hide-ok-{}-{}", hide, fail));
        }
    }
}

// --- -C / -f / builddir (C18) ---------------------------------------------------

fn flags_job(ctx: &mut Ctx, res: &mut ShardResult) {
    let job = ctx.job.clone();
    let mut idx = 0u64;
    for use_c in [false, true] {
        for use_f in [false, true] {
            for (use_builddir, use_sub) in [(false, false), (true, false), (false, true), (true, true)] {
                idx += 1;
                if let Some(c) = &ctx.replay {
                    if c["index"].as_u64() != Some(idx) {
                        continue;
                    }
                } else if idx % ctx.nshards != ctx.shard {
                    continue;
                }
                ctx.marker.set(idx, format!("C={} f={} builddir={}", use_c, use_f, use_builddir).as_bytes());
                fresh();
                res.evaluations += 1;
                let dir = if use_c { "proj" } else { "." };
                std::fs::create_dir_all(dir).unwrap();
                let fname = if use_f { "other.ninja" } else { "build.ninja" };
                let mut manifest = String::new();
                if use_builddir {
                    manifest.push_str("builddir = bd/sub\n");
                }
                manifest.push_str("rule cp\n  command = cp $in $out && echo ran-$out >> log.txt\nbuild mid: cp src\nbuild top: cp mid\nbuild unrelated: cp src2\ndefault top\n");
                if use_sub {
                    // A subninja file binds builddir in its own private scope;
                    // that must not move the log.
                    manifest.push_str("subninja sub.ninja\n");
                    std::fs::write(format!("{}/sub.ninja", dir), "builddir = third_party/obj\nbuild subthing: cp src2\n").unwrap();
                }
                std::fs::write(format!("{}/{}", dir, fname), &manifest).unwrap();
                std::fs::write(format!("{}/src", dir), "s").unwrap();
                std::fs::write(format!("{}/src2", dir), "s2").unwrap();
                let mut args: Vec<String> = Vec::new();
                if use_c {
                    args.push("-C".into());
                    args.push("proj".into());
                }
                if use_f {
                    args.push("-f".into());
                    args.push(fname.into());
                }
                let a: Vec<&str> = args.iter().map(|s| s.as_str()).collect();
                let o1 = n2(&a);
                let o2 = n2(&a);
                let replay = || json!({"job": job, "index": idx});
                let log = std::fs::read_to_string(format!("{}/log.txt", dir)).unwrap_or_default();
                let db_expected = if use_builddir { format!("{}/bd/sub/.n2_db", dir) } else { format!("{}/.n2_db", dir) };
                let db_other = if use_builddir { format!("{}/.n2_db", dir) } else { format!("{}/bd/sub/.n2_db", dir) };
                let t1 = String::from_utf8_lossy(&o1.stdout).to_string();
                let t2 = String::from_utf8_lossy(&o2.stdout).to_string();
                if o1.code != Some(0) || log != "ran-mid\nran-top\n" {
                    res.violation("flags-change-what-is-built", || format!("C={} f={} builddir={}: exit {:?}, commands run: {:?}\n{}", use_c, use_f, use_builddir, o1.code, log, t1), replay);
                    continue;
                }
                let stray = std::path::Path::new(&format!("{}/third_party/obj/.n2_db", dir)).exists();
                if stray || !std::path::Path::new(&db_expected).exists() || std::path::Path::new(&db_other).exists() || (use_c && std::path::Path::new(".n2_db").exists()) {
                    res.violation("log-in-wrong-place", || format!("C={} f={} builddir={}: expected the log at {}", use_c, use_f, use_builddir, db_expected), replay);
                    continue;
                }
                if o2.code != Some(0) || !t2.contains("n2: no work to do") {
                    res.violation("second-run-not-a-no-op", || format!("C={} f={} builddir={}: second run: {}", use_c, use_f, use_builddir, t2), replay);
                    continue;
                }
                if std::path::Path::new(&format!("{}/unrelated", dir)).exists() {
                    res.violation("built-outside-default-closure", || "the step outside `default top` was built".to_string(), replay);
                    continue;
                }
                res.nontrivial += 1;
                res.outcome("flags-ok");
            }
        }
    }
}

// --- summary line (C19) -----------------------------------------------------------

fn summary_job(ctx: &mut Ctx, res: &mut ShardResult) {
    let job = ctx.job.clone();
    for n in 0..=3usize {
        fresh();
        res.evaluations += 1;
        let mut manifest = String::from("rule t\n  command = touch $out\n");
        for i in 0..n {
            manifest.push_str(&format!("build o{}: t\n", i));
        }
        manifest.push_str("build all: phony");
        for i in 0..n {
            manifest.push_str(&format!(" o{}", i));
        }
        manifest.push('\n');
        std::fs::write("build.ninja", &manifest).unwrap();
        let o = n2(&["all"]);
        let text = String::from_utf8_lossy(&o.stdout).to_string();
        let expect = match n {
            0 => "n2: no work to do".to_string(),
            1 => "n2: ran 1 task, now up to date".to_string(),
            k => format!("n2: ran {} tasks, now up to date", k),
        };
        let last = text.lines().last().unwrap_or("").to_string();
        if last != expect || o.code != Some(0) {
            res.violation("summary-line-wrong", || format!("{} commands completed; last line {:?}, expected {:?}", n, last, expect), || json!({"job": job, "index": n}));
            continue;
        }
        let o2 = n2(&["all"]);
        let t2 = String::from_utf8_lossy(&o2.stdout).to_string();
        if t2.lines().last() != Some("n2: no work to do") {
            res.violation("no-work-line-missing", || format!("repeat with {} steps: {:?}", n, t2), || json!({"job": job, "index": n}));
            continue;
        }
        res.nontrivial += 1;
        res.outcome("summary-ok");
    }
    ctx.marker.tick();
}

// --- error classes on the binary (C12) ----------------------------------------------

fn errors_job(_ctx: &mut Ctx, res: &mut ShardResult) {
    let cases: Vec<(&str, &str, Vec<&str>, &str)> = vec![
        ("syntax", "build a b\n", vec![], "n2: error: parse error: "),
        ("syntax-eof", "x = $", vec![], "n2: error: parse error: "),
        ("unknown-rule", "build a: nosuch\n", vec![], "n2: error: "),
        ("unknown-target", "build a: phony\n", vec!["zz"], "n2: error: unknown path requested"),
        ("empty-target", "build a: phony\n", vec![""], "n2: error: unknown path requested"),
        ("cycle", "build a: phony b\nbuild b: phony a\n", vec![], "n2: error: dependency cycle"),
        ("missing-input", "rule t\n  command = touch $out\nbuild a: t nosuchsrc\n", vec![], "n2: error: "),
        ("dup-output", "rule t\n  command = touch $out\nbuild a: t\nbuild ./a: t\n", vec![], "n2: error: "),
        ("include-cycle", "include build.ninja\n", vec![], "n2: error: "),
        ("empty-path", "build $x: phony\n", vec![], "n2: error: "),
        ("bad-flag", "build a: phony\n", vec!["--nosuchflag"], "n2: error: "),
    ];
    for (name, manifest, args, expect) in cases {
        fresh();
        res.evaluations += 1;
        std::fs::write("build.ninja", manifest).unwrap();
        let o = n2(&args);
        let text = String::from_utf8_lossy(&o.stdout).to_string();
        if o.code != Some(1) || !text.contains(expect) {
            res.violation("binary-error-mapping", || format!("{}: exit {:?}, output {:?}; expected exit 1 and {:?}", name, o.code, text, expect), || json!({"job": "proc:errors", "name": name}));
        } else {
            res.nontrivial += 1;
            res.outcome(&format!("error-ok-{}", name));
        }
    }
}

// --- /showIncludes filter ------------------------------------------------------------

const FILTER_TOKENS: &[&str] = &["Note: including file: ", "x", " ", "\n", "\r", "y"];

/// Reference: a line is removed (with its newline) iff it starts with the
/// prefix; its dependency is the rest minus leading spaces and one trailing
/// CR; every other byte is kept.
fn reference_filter(input: &[u8]) -> (Vec<String>, Vec<u8>) {
    let prefix = b"Note: including file: ";
    let mut includes = Vec::new();
    let mut kept: Vec<&[u8]> = Vec::new();
    for line in input.split(|&c| c == b'\n') {
        if let Some(rest) = line.strip_prefix(&prefix[..]) {
            let mut r = rest;
            while let Some((b' ', tail)) = r.split_first() {
                r = tail;
            }
            if let Some((b'\r', head)) = r.split_last() {
                r = head;
            }
            includes.push(String::from_utf8_lossy(r).to_string());
        } else {
            kept.push(line);
        }
    }
    (includes, kept.join(&b'\n'))
}

fn filter_job(ctx: &mut Ctx, res: &mut ShardResult, max: u32) {
    let job = ctx.job.clone();
    let k = FILTER_TOKENS.len() as u64;
    let total = count_upto(k, 0, max);
    let (lo, hi) = shard_range(total, ctx.shard, ctx.nshards);
    let mut buf = Vec::new();
    let check = |buf: &[u8], res: &mut ShardResult| {
        res.evaluations += 1;
        let (want_inc, want_out) = reference_filter(buf);
        let b2 = buf.to_vec();
        match catch(|| n2::verif::verif_extract_showincludes(b2)) {
            Err(p) => res.violation(&p.key(), || format!("filter panicked on {:?}: {}", String::from_utf8_lossy(buf), p.message), || json!({"job": job, "bytes": buf})),
            Ok((inc, out)) => {
                if inc != want_inc {
                    res.violation("includes-differ", || format!("output {:?}: includes {:?}, expected {:?}", String::from_utf8_lossy(buf), inc, want_inc), || json!({"job": job, "bytes": buf}));
                } else if out != want_out {
                    let key = if want_out.starts_with(b"\n") && !out.starts_with(b"\n") { "leading-blank-lines-dropped" } else { "shown-output-differs" };
                    res.violation(key, || format!("output {:?}: shown {:?}, expected {:?}", String::from_utf8_lossy(buf), String::from_utf8_lossy(&out), String::from_utf8_lossy(&want_out)), || json!({"job": job, "bytes": buf}));
                } else {
                    if !want_inc.is_empty() {
                        res.nontrivial += 1;
                    }
                    res.outcome(if want_inc.is_empty() { "no-notes" } else { "notes-removed" });
                }
            }
        }
    };
    if let Some(c) = &ctx.replay {
        let bytes: Vec<u8> = c["bytes"].as_array().map(|a| a.iter().map(|x| x.as_u64().unwrap_or(0) as u8).collect()).unwrap_or_default();
        check(&bytes, res);
        return;
    }
    for_range(k, 0, max, lo, hi, |idx, seq| {
        buf.clear();
        for &s in seq {
            buf.extend_from_slice(FILTER_TOKENS[s as usize].as_bytes());
        }
        ctx.marker.set(idx, &buf);
        check(&buf, res);
        if idx % 100_003 == 0 {
            let b = buf.clone();
            res.sample(|| json!({"command_output": String::from_utf8_lossy(&b)}));
        }
    });
}

pub fn run(ctx: &mut Ctx) -> ShardResult {
    let mut res = ShardResult::default();
    let job = ctx.job.clone();
    let parts: Vec<&str> = job.split(':').collect();
    match parts[1] {
        "argv" => argv_job(ctx, &mut res),
        "conform" => conform_job(ctx, &mut res),
        "pty" => pty_job(ctx, &mut res),
        "stall" => stall_job(ctx, &mut res),
        "subdir" => subdir_job(ctx, &mut res),
        "bytes" => bytes_job(ctx, &mut res),
        "hide" => hide_job(ctx, &mut res),
        "fdleak" => fdleak_job(ctx, &mut res),
        "dirs" => dirs_job(ctx, &mut res),
        "msvc" => msvc_job(ctx, &mut res),
        "volume" => volume_job(ctx, &mut res),
        "status" => status_job(ctx, &mut res),
        "parallel" => parallel_job(ctx, &mut res),
        "flags" => flags_job(ctx, &mut res),
        "summary" => summary_job(ctx, &mut res),
        "errors" => errors_job(ctx, &mut res),
        "filter" => filter_job(ctx, &mut res, parts[2].parse().expect("bound")),
        other => panic!("unknown proc job {}", other),
    }
    res
}

pub fn case_from_marker(job: &str, bytes: &[u8]) -> Value {
    json!({"job": job, "bytes": bytes})
}
