fn main() {
    let args: Vec<String> = std::env::args().skip(1).collect();
    std::process::exit(n2::loomh::main(args));
}
