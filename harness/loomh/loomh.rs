//! Loom harness, compiled *into* a scratch copy of the n2 crate (never into
//! /repo): `pub mod loomh;` is appended to the copy's lib.rs, the child
//! modules loomh_runner / loomh_fancy are appended to task.rs and
//! progress_fancy.rs, and the std sync/thread paths of those two files are
//! rewritten to loom's by tools/loom_prepare.sh.  Everything else is the code
//! as it stands in /repo's working tree.

use std::sync::atomic::{AtomicBool, AtomicUsize, Ordering};

/// What `std` means inside the two files under exploration: the prepared copy
/// of task.rs and progress_fancy.rs starts with `use crate::loomh::fakestd as
/// std;`, so every `std::sync::{Arc, Mutex, Condvar, mpsc, ..}` and
/// `std::thread::{spawn, JoinHandle, sleep, ..}` path in them - however it is
/// imported - resolves to loom's scheduler-visible types, and everything else
/// to the real std.
pub mod fakestd {
    pub use ::std::*;
    pub mod sync {
        pub use ::std::sync::*;
        pub use loom::sync::{mpsc, Arc, Condvar, Mutex, MutexGuard, RwLock};
        pub mod atomic {
            pub use loom::sync::atomic::*;
        }
    }
    pub mod thread {
        pub use ::std::thread::*;
        pub use loom::thread::{current, park, spawn, yield_now, JoinHandle};
        /// A sleep only lets other threads run.
        pub fn sleep(_d: ::std::time::Duration) {
            loom::thread::yield_now();
        }
    }
}

/// Result of exploring one scenario.
pub struct Outcome {
    /// True when the exploration was stopped by the wall-clock cap.
    pub capped: bool,
    pub iterations: usize,
    /// Distinct observation strings (one per interleaving class).
    pub distinct: std::collections::BTreeSet<String>,
    /// First failed invariant, if any: (key, detail).
    pub failure: Option<(String, String)>,
}

pub(crate) static ITER: AtomicUsize = AtomicUsize::new(0);
pub(crate) static FAILURE: std::sync::Mutex<Option<(String, String)>> = std::sync::Mutex::new(None);
pub(crate) static DISTINCT: std::sync::Mutex<std::collections::BTreeSet<String>> =
    std::sync::Mutex::new(std::collections::BTreeSet::new());

/// Records the first failure and stops the exploration by panicking.
pub(crate) fn fail(key: &str, detail: String) -> ! {
    {
        let mut f = FAILURE.lock().unwrap_or_else(|e| e.into_inner());
        if f.is_none() {
            *f = Some((key.to_string(), detail.clone()));
        }
    }
    panic!("loomh invariant {}: {}", key, detail);
}

pub(crate) fn observe(s: String) {
    DISTINCT.lock().unwrap_or_else(|e| e.into_inner()).insert(s);
}

/// Set by the modelled timer; consumed by `wait_timeout_while`.  Only
/// accessed while the mutex belonging to the condvar is held, so a plain
/// atomic is enough (loom orders the accesses through the mutex).
pub(crate) static TIMEOUT_FIRED: AtomicBool = AtomicBool::new(false);

/// std's `Condvar::wait_timeout_while`, which loom lacks, written exactly as
/// std implements it (a loop around a timed wait that re-checks the
/// condition), with "the timeout elapsed" modelled as an external event: a
/// timer thread of the scenario sets TIMEOUT_FIRED and notifies.
pub(crate) trait CondvarExt {
    fn wait_timeout_while<'a, T, F>(
        &self,
        guard: loom::sync::MutexGuard<'a, T>,
        dur: std::time::Duration,
        condition: F,
    ) -> Result<(loom::sync::MutexGuard<'a, T>, bool), String>
    where
        F: FnMut(&mut T) -> bool;
}

impl CondvarExt for loom::sync::Condvar {
    fn wait_timeout_while<'a, T, F>(
        &self,
        mut guard: loom::sync::MutexGuard<'a, T>,
        _dur: std::time::Duration,
        mut condition: F,
    ) -> Result<(loom::sync::MutexGuard<'a, T>, bool), String>
    where
        F: FnMut(&mut T) -> bool,
    {
        loop {
            if !condition(&mut *guard) {
                return Ok((guard, false));
            }
            if TIMEOUT_FIRED.swap(false, Ordering::SeqCst) {
                return Ok((guard, true));
            }
            guard = match self.wait(guard) {
                Ok(g) => g,
                Err(_) => return Err("poisoned".to_string()),
            };
        }
    }
}

// ---------------------------------------------------------------------------
// stdout capture: fd 1 is redirected to a memfd for the whole process.

static CAPTURE_FD: AtomicUsize = AtomicUsize::new(0);

pub(crate) fn capture_init() {
    unsafe {
        let fd = libc::memfd_create(c"loomh-stdout".as_ptr(), 0);
        assert!(fd >= 0, "memfd_create");
        assert!(libc::dup2(fd, 1) == 1, "dup2");
        CAPTURE_FD.store(fd as usize, Ordering::SeqCst);
    }
}

pub(crate) fn capture_reset() {
    use std::io::Write;
    let _ = std::io::stdout().flush();
    let fd = CAPTURE_FD.load(Ordering::SeqCst) as i32;
    unsafe {
        libc::ftruncate(fd, 0);
        libc::lseek(fd, 0, libc::SEEK_SET);
    }
}

pub(crate) fn capture_take() -> Vec<u8> {
    use std::io::Write;
    let _ = std::io::stdout().flush();
    let fd = CAPTURE_FD.load(Ordering::SeqCst) as i32;
    let mut out = Vec::new();
    unsafe {
        let len = libc::lseek(fd, 0, libc::SEEK_END);
        libc::lseek(fd, 0, libc::SEEK_SET);
        out.resize(len.max(0) as usize, 0);
        let mut got = 0usize;
        while got < out.len() {
            let n = libc::read(fd, out[got..].as_mut_ptr() as *mut libc::c_void, out.len() - got);
            if n <= 0 {
                break;
            }
            got += n as usize;
        }
        out.truncate(got);
        libc::ftruncate(fd, 0);
        libc::lseek(fd, 0, libc::SEEK_SET);
    }
    out
}

// ---------------------------------------------------------------------------

fn explore(preemption_bound: Option<usize>, max_branches: usize, cap_secs: u64, f: impl Fn() + Sync + Send + 'static) -> Outcome {
    ITER.store(0, Ordering::SeqCst);
    *FAILURE.lock().unwrap_or_else(|e| e.into_inner()) = None;
    DISTINCT.lock().unwrap_or_else(|e| e.into_inner()).clear();
    let mut b = loom::model::Builder::new();
    b.preemption_bound = preemption_bound;
    b.max_branches = max_branches;
    b.log = false;
    b.max_duration = Some(std::time::Duration::from_secs(cap_secs));
    let t0 = std::time::Instant::now();
    let r = std::panic::catch_unwind(std::panic::AssertUnwindSafe(|| {
        b.check(move || {
            ITER.fetch_add(1, Ordering::SeqCst);
            f();
        });
    }));
    let mut failure = FAILURE.lock().unwrap_or_else(|e| e.into_inner()).take();
    if let Err(p) = r {
        if failure.is_none() {
            let msg = if let Some(s) = p.downcast_ref::<&str>() {
                s.to_string()
            } else if let Some(s) = p.downcast_ref::<String>() {
                s.clone()
            } else {
                "<non-string panic>".to_string()
            };
            let key = if msg.contains("deadlock") {
                "deadlock"
            } else {
                "panic"
            };
            failure = Some((key.to_string(), msg));
        }
    }
    Outcome {
        capped: failure.is_none() && t0.elapsed().as_secs() >= cap_secs,
        iterations: ITER.load(Ordering::SeqCst),
        distinct: std::mem::take(&mut *DISTINCT.lock().unwrap_or_else(|e| e.into_inner())),
        failure,
    }
}

fn json_escape(s: &str) -> String {
    let mut o = String::new();
    for c in s.chars() {
        match c {
            '"' => o.push_str("\\\""),
            '\\' => o.push_str("\\\\"),
            '\n' => o.push_str("\\n"),
            '\r' => o.push_str("\\r"),
            '\t' => o.push_str("\\t"),
            c if (c as u32) < 0x20 => o.push_str(&format!("\\u{:04x}", c as u32)),
            c => o.push(c),
        }
    }
    o
}

/// `loomh <engine> <scenario> <preemption bound|none>`; prints one JSON line on stderr.
pub fn main(args: Vec<String>) -> i32 {
    if args.len() < 3 {
        eprintln!("usage: loomh runner|fancy <scenario> <bound|none>");
        return 2;
    }
    let bound = args[2].parse::<usize>().ok();
    let cap_secs: u64 = args.get(3).and_then(|s| s.parse().ok()).unwrap_or(20);
    capture_init();
    std::panic::set_hook(Box::new(|info| {
        // Kept short: one line per panic, so that a harness death is explainable.
        let msg = if let Some(s) = info.payload().downcast_ref::<&str>() {
            s.to_string()
        } else if let Some(s) = info.payload().downcast_ref::<String>() {
            s.clone()
        } else {
            String::new()
        };
        let loc = info.location().map(|l| format!("{}:{}", l.file(), l.line())).unwrap_or_default();
        eprintln!("PANIC at {}: {}", loc, msg.chars().take(300).collect::<String>());
    }));
    let scn = args[1].clone();
    let out = match args[0].as_str() {
        "runner" => {
            let Some(s) = crate::task::loomh_runner::Scenario::parse(&scn) else {
                eprintln!("bad scenario");
                return 2;
            };
            crate::task::loomh_runner::install_hooks();
            let o = explore(bound, 100_000, cap_secs, move || crate::task::loomh_runner::body(&s));
            crate::task::loomh_runner::cleanup();
            o
        }
        "fancy" => {
            let Some(s) = crate::progress_fancy::loomh_fancy::Scenario::parse(&scn) else {
                eprintln!("bad scenario");
                return 2;
            };
            explore(bound, 100_000, cap_secs, move || crate::progress_fancy::loomh_fancy::body(&s))
        }
        _ => return 2,
    };
    let (key, detail) = match &out.failure {
        Some((k, d)) => (k.clone(), d.clone()),
        None => (String::new(), String::new()),
    };
    let sample = out.distinct.iter().next().cloned().unwrap_or_default();
    eprintln!(
        "LOOMH {{\"engine\":\"{}\",\"scenario\":\"{}\",\"iterations\":{},\"distinct\":{},\"capped\":{},\"ok\":{},\"key\":\"{}\",\"detail\":\"{}\",\"sample\":\"{}\"}}",
        json_escape(&args[0]),
        json_escape(&scn),
        out.iterations,
        out.distinct.len(),
        out.capped,
        out.failure.is_none(),
        json_escape(&key),
        json_escape(&detail.chars().take(1500).collect::<String>()),
        json_escape(&sample.chars().take(300).collect::<String>()),
    );
    0
}
