//! All interleavings of the real `task::Runner`: real `Runner::start` spawning
//! real task threads that run the real `run_task` (rspfile, output
//! accumulation, last-line callback, /showIncludes filter) around a scripted
//! `run_command`, and the real `Runner::wait` on the main thread.
//!
//! Scenario text: `<parallelism>;<task>;<task>...` with task =
//! `<chunks><flags>`: chunks = number of output chunks 0..3, flags: `h` =
//! hide_progress, `f` = command fails, `i` = interrupted, `m` = deps=msvc (one
//! note line is mixed into the output), `d` = the command succeeds but leaves a
//! depfile that cannot be parsed (n2 turns the step into a failure after the
//! process is gone).
//!
//! What is demanded is what C04/C16 state, not how Runner keeps its books: the
//! number of commands *executing* (inside run_command) never exceeds the
//! parallelism; every started task is returned by wait exactly once with its
//! bytes, termination and dependencies; last-line updates arrive in order,
//! before the completion, only for running, non-hidden tasks; the collector
//! loop `while can_start_more {start}; if !is_running {break}; wait` neither
//! deadlocks nor ends with tasks unreturned.

use super::*;
use crate::densemap::Index as _;
use crate::graph::{BuildId, BuildIns, BuildOuts, FileLoc};
use crate::loomh::{fail, observe};
use crate::process::Termination;

#[derive(Clone)]
pub struct TaskScript {
    pub chunks: usize,
    pub hide: bool,
    pub fail: bool,
    pub interrupt: bool,
    pub msvc: bool,
    pub bad_depfile: bool,
}

static EXECUTING: ::std::sync::atomic::AtomicUsize = ::std::sync::atomic::AtomicUsize::new(0);
static PARALLELISM: ::std::sync::atomic::AtomicUsize = ::std::sync::atomic::AtomicUsize::new(0);
static OVER: ::std::sync::Mutex<Option<String>> = ::std::sync::Mutex::new(None);

fn bad_depfile_path() -> String {
    format!("/dev/shm/loomh-bad-depfile.{}.d", ::std::process::id())
}

#[derive(Clone)]
pub struct Scenario {
    pub parallelism: usize,
    pub tasks: Vec<TaskScript>,
}

impl Scenario {
    pub fn parse(s: &str) -> Option<Scenario> {
        let mut it = s.split(';');
        let parallelism = it.next()?.parse().ok()?;
        let mut tasks = Vec::new();
        for t in it {
            let chunks = t.chars().next()?.to_digit(10)? as usize;
            tasks.push(TaskScript {
                chunks,
                hide: t.contains('h'),
                fail: t.contains('f'),
                interrupt: t.contains('i'),
                msvc: t.contains('m'),
                bad_depfile: t.contains('d'),
            });
        }
        Some(Scenario { parallelism, tasks })
    }
}

fn chunk_text(task: usize, chunk: usize) -> String {
    format!("t{}c{}\n", task, chunk)
}

struct H;
impl crate::verif::Hooks for H {
    fn run_command(
        &self,
        cmdline: &str,
        output: &mut dyn FnMut(&[u8]),
    ) -> Option<anyhow::Result<Termination>> {
        // cmdline: "<task> <chunks> <term> <msvc>"
        let f: Vec<&str> = cmdline.split(' ').collect();
        let task: usize = f[0].parse().unwrap();
        let chunks: usize = f[1].parse().unwrap();
        use ::std::sync::atomic::Ordering::SeqCst;
        let now = EXECUTING.fetch_add(1, SeqCst) + 1;
        let par = PARALLELISM.load(SeqCst);
        if now > par {
            let mut g = OVER.lock().unwrap_or_else(|e| e.into_inner());
            if g.is_none() {
                *g = Some(format!("{} commands executing at once with parallelism {} (task {} just started)", now, par, task));
            }
        }
        for c in 0..chunks {
            if f[3] == "m" && c == 0 {
                output(b"Note: including file: hdr.h\n");
            }
            output(chunk_text(task, c).as_bytes());
        }
        EXECUTING.fetch_sub(1, SeqCst);
        Some(Ok(match f[2] {
            "f" => Termination::Failure,
            "i" => Termination::Interrupted,
            _ => Termination::Success,
        }))
    }
}

pub fn install_hooks() {
    ::std::fs::write(bad_depfile_path(), "garbage text without a colon\n").expect("write depfile");
    crate::verif::install(Box::new(H));
}

/// Removes what install_hooks created.
pub fn cleanup() {
    let _ = ::std::fs::remove_file(bad_depfile_path());
}

fn check_over() {
    let over = OVER.lock().unwrap_or_else(|e| e.into_inner()).take();
    if let Some(d) = over {
        fail("commands-over-parallelism", d);
    }
}

fn make_build(i: usize, t: &TaskScript) -> Build {
    let mut b = Build::new(
        FileLoc {
            filename: ::std::rc::Rc::new(PathBuf::from("build.ninja")),
            line: i + 1,
        },
        BuildIns {
            ids: Vec::new(),
            explicit: 0,
            implicit: 0,
            order_only: 0,
        },
        BuildOuts {
            ids: Vec::new(),
            explicit: 0,
        },
    );
    b.cmdline = Some(format!(
        "{} {} {} {}",
        i,
        t.chunks,
        if t.fail {
            "f"
        } else if t.interrupt {
            "i"
        } else {
            "s"
        },
        if t.msvc { "m" } else { "-" }
    ));
    b.hide_progress = t.hide;
    b.parse_showincludes = t.msvc;
    if t.bad_depfile {
        b.depfile = Some(bad_depfile_path());
    }
    b
}

/// One execution (called once per interleaving by loom).
pub fn body(s: &Scenario) {
    let n = s.tasks.len();
    EXECUTING.store(0, ::std::sync::atomic::Ordering::SeqCst);
    PARALLELISM.store(s.parallelism, ::std::sync::atomic::Ordering::SeqCst);
    *OVER.lock().unwrap_or_else(|e| e.into_inner()) = None;
    let builds: Vec<Build> = s.tasks.iter().enumerate().map(|(i, t)| make_build(i, t)).collect();
    let mut runner = Runner::new(s.parallelism);
    let mut next = 0usize;
    let mut live: Vec<(usize, usize)> = Vec::new(); // (task, logical start time)
    let mut clock = 0usize;
    let mut returned: Vec<bool> = vec![false; n];
    let mut lines_seen: Vec<usize> = vec![0; n];
    let mut trace = String::new();
    loop {
        while next < n && runner.can_start_more() {
            runner.start(BuildId::from(next), &builds[next]);
            clock += 1;
            live.push((next, clock));
            next += 1;
        }
        if !runner.is_running() {
            // (tasks still unreturned here are reported as task-lost below)
            break;
        }
        if live.is_empty() {
            fail("waiting-for-nothing", "is_running() is true although every started task has been returned: wait would block forever".to_string());
        }
        let mut outputs: Vec<(usize, Vec<u8>)> = Vec::new();
        let task = runner.wait(|bid, line| outputs.push((bid.index(), line)));
        for (bid, line) in outputs {
            if bid >= n || returned[bid] || !live.iter().any(|l| l.0 == bid) {
                fail("output-for-dead-task", format!("output line for task {} which is not running", bid));
            }
            if s.tasks[bid].hide {
                fail("output-hidden-task", format!("last-line update for hide_progress task {}", bid));
            }
            // The k-th update of a task is the last line after k chunks.  With
            // msvc the note line precedes chunk 0, so there is one extra update.
            let k = lines_seen[bid];
            let expect: Vec<u8> = if s.tasks[bid].msvc {
                if k == 0 {
                    b"Note: including file: hdr.h".to_vec()
                } else {
                    chunk_text(bid, k - 1).trim_end().as_bytes().to_vec()
                }
            } else {
                chunk_text(bid, k).trim_end().as_bytes().to_vec()
            };
            if line != expect {
                fail(
                    "output-order",
                    format!("task {} update #{} is {:?}, expected {:?}", bid, k, String::from_utf8_lossy(&line), String::from_utf8_lossy(&expect)),
                );
            }
            lines_seen[bid] += 1;
            trace.push_str(&format!("o{} ", bid));
        }
        check_over();
        let bid = task.buildid.index();
        if bid >= n || returned[bid] || !live.iter().any(|l| l.0 == bid) {
            fail("done-twice-or-unknown", format!("wait returned task {} which is not running", bid));
        }
        let t = &s.tasks[bid];
        let expected_updates = if t.hide { 0 } else { t.chunks + usize::from(t.msvc && t.chunks > 0) };
        if lines_seen[bid] != expected_updates {
            fail(
                "output-lost",
                format!("task {} finished after {} last-line updates, expected {}", bid, lines_seen[bid], expected_updates),
            );
        }
        let mut full = Vec::new();
        for c in 0..t.chunks {
            full.extend_from_slice(chunk_text(bid, c).as_bytes());
        }
        let bad = t.bad_depfile && !t.fail && !t.interrupt;
        if bad {
            // n2 reports the unreadable depfile instead of the output.
            let text = String::from_utf8_lossy(&task.result.output).to_string();
            if !text.contains("loomh-bad-depfile") {
                fail("depfile-error-not-reported", format!("task {} output {:?} does not name the depfile", bid, text));
            }
        } else if task.result.output != full {
            fail(
                "output-bytes",
                format!("task {} output {:?}, expected {:?}", bid, String::from_utf8_lossy(&task.result.output), String::from_utf8_lossy(&full)),
            );
        }
        let term_ok = match task.result.termination {
            Termination::Success => !t.fail && !t.interrupt && !bad,
            Termination::Failure => t.fail || bad,
            Termination::Interrupted => t.interrupt && !t.fail,
        };
        if !term_ok {
            fail("termination", format!("task {} termination {:?}", bid, task.result.termination));
        }
        let deps_ok = t.bad_depfile || match (&task.result.discovered_deps, t.msvc) {
            (None, false) => true,
            (Some(d), true) => {
                if t.chunks > 0 {
                    d.len() == 1 && d[0] == "hdr.h"
                } else {
                    d.is_empty()
                }
            }
            _ => false,
        };
        if !deps_ok {
            fail("discovered-deps", format!("task {} deps {:?}", bid, task.result.discovered_deps));
        }
        returned[bid] = true;
        live.retain(|l| l.0 != bid);
        trace.push_str(&format!("D{} ", bid));
    }
    check_over();
    if returned.iter().any(|r| !r) {
        fail("task-lost", format!("returned = {:?}", returned));
    }
    observe(trace);
}
