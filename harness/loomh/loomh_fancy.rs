//! All interleavings of the fancy console's display thread with the main
//! thread: the real `FancyConsoleProgress` (Mutex + Condvar + debounce thread)
//! driven through the `Progress` trait by a scripted main thread, with the
//! timeout of `wait_timeout_while` modelled as an event raised by a timer
//! thread.  stdout is captured per execution.
//!
//! Scenario text: `<ticks>;<verbose 0|1>;<ops>` with ops a string over
//!   u = update(counts)        s = task_started(next task)
//!   o = task_output(oldest running task, a line)
//!   F = task_finished(oldest running, failed with output)
//!   S = task_finished(oldest running, success with output)
//!   q = task_finished(oldest running, success, no output)
//!   l = log(message)

use super::*;
use crate::graph::{BuildIns, BuildOuts, FileLoc};
use crate::loomh::{capture_reset, capture_take, fail, observe, TIMEOUT_FIRED};
use crate::progress::Progress;
use ::std::sync::atomic::Ordering;

#[derive(Clone)]
pub struct Scenario {
    pub ticks: usize,
    pub verbose: bool,
    pub ops: Vec<char>,
}

impl Scenario {
    pub fn parse(s: &str) -> Option<Scenario> {
        let f: Vec<&str> = s.split(';').collect();
        if f.len() != 3 {
            return None;
        }
        Some(Scenario {
            ticks: f[0].parse().ok()?,
            verbose: f[1] == "1",
            ops: f[2].chars().collect(),
        })
    }
}

fn make_build(i: usize) -> Build {
    let mut b = Build::new(
        FileLoc {
            filename: ::std::rc::Rc::new(::std::path::PathBuf::from("build.ninja")),
            line: i + 1,
        },
        BuildIns {
            ids: Vec::new(),
            explicit: 0,
            implicit: 0,
            order_only: 0,
        },
        BuildOuts {
            ids: Vec::new(),
            explicit: 0,
        },
    );
    b.cmdline = Some(format!("CMD<{}>", i));
    b.desc = Some(format!("DESC<{}>", i));
    b
}

fn count(hay: &[u8], needle: &[u8]) -> Vec<usize> {
    let mut v = Vec::new();
    if needle.is_empty() || hay.len() < needle.len() {
        return v;
    }
    for i in 0..=hay.len() - needle.len() {
        if &hay[i..i + needle.len()] == needle {
            v.push(i);
        }
    }
    v
}

pub fn body(s: &Scenario) {
    capture_reset();
    TIMEOUT_FIRED.store(false, Ordering::SeqCst);
    let progress = FancyConsoleProgress::new(s.verbose);
    let timer = if s.ticks > 0 {
        let state = progress.state.clone();
        let cond = state.lock().unwrap().dirty_cond.clone();
        let ticks = s.ticks;
        Some(loom::thread::spawn(move || {
            for _ in 0..ticks {
                {
                    let _g = state.lock().unwrap();
                    TIMEOUT_FIRED.store(true, Ordering::SeqCst);
                }
                cond.notify_one();
            }
        }))
    } else {
        None
    };

    // What must appear in the terminal stream, exactly once each, in order.
    let mut expected: Vec<Vec<u8>> = Vec::new();
    let mut builds: Vec<Build> = Vec::new();
    let mut running: ::std::collections::VecDeque<usize> = ::std::collections::VecDeque::new();
    let mut counts = StateCounts::default();
    let mut nlog = 0;
    for &op in &s.ops {
        match op {
            'u' => {
                counts.add(BuildState::Want, 1);
                progress.update(&counts);
            }
            's' => {
                let i = builds.len();
                builds.push(make_build(i));
                progress.task_started(BuildId::from(i), &builds[i]);
                running.push_back(i);
                if s.verbose {
                    expected.push(format!("CMD<{}>\n", i).into_bytes());
                }
            }
            'o' => {
                if let Some(&i) = running.front() {
                    progress.task_output(BuildId::from(i), format!("LINE<{}>", i).into_bytes());
                }
            }
            'F' | 'S' | 'q' => {
                if let Some(i) = running.pop_front() {
                    let output = if op == 'q' {
                        Vec::new()
                    } else {
                        format!("OUT<{}>a\nOUT<{}>b", i, i).into_bytes()
                    };
                    let result = TaskResult {
                        termination: if op == 'F' { Termination::Failure } else { Termination::Success },
                        output,
                        discovered_deps: None,
                    };
                    progress.task_finished(BuildId::from(i), &builds[i], &result);
                    match op {
                        'F' => expected.push(format!("failed: DESC<{}>\nOUT<{}>a\nOUT<{}>b\n", i, i, i).into_bytes()),
                        'S' => expected.push(format!("DESC<{}>\nOUT<{}>a\nOUT<{}>b\n", i, i, i).into_bytes()),
                        _ => {}
                    }
                }
            }
            'l' => {
                progress.log(&format!("LOG<{}>", nlog));
                expected.push(format!("LOG<{}>\n", nlog).into_bytes());
                nlog += 1;
            }
            _ => {}
        }
    }
    drop(progress);
    if let Some(t) = timer {
        t.join().unwrap();
    }
    let out = capture_take();
    let mut last = 0usize;
    for e in &expected {
        let at = count(&out, e);
        if at.len() != 1 {
            fail(
                if at.is_empty() { "message-lost" } else { "message-duplicated" },
                format!(
                    "{:?} appears {} times in the terminal stream {:?}",
                    String::from_utf8_lossy(e),
                    at.len(),
                    String::from_utf8_lossy(&out)
                ),
            );
        }
        if at[0] < last {
            fail(
                "message-order",
                format!("{:?} is printed before an earlier message; stream {:?}", String::from_utf8_lossy(e), String::from_utf8_lossy(&out)),
            );
        }
        last = at[0] + e.len();
    }
    // Shape of the stream as the observation class: number of frames painted.
    let frames = count(&out, b" done, ").len();
    observe(format!("frames={} bytes={}", frames, out.len()));
}
