#!/bin/sh
# Builds the verification harness and the plain n2 binary, offline.
cd "$(dirname "$0")" || exit 1
export CARGO_NET_OFFLINE=true
export CARGO_TARGET_DIR=/verif/target
mkdir -p /verif/target
cargo build --release --offline --manifest-path harness/Cargo.toml || exit 1
cargo build --offline --no-default-features --manifest-path /repo/Cargo.toml --target-dir /verif/target/n2bin || exit 1
tools/loom_prepare.sh >/dev/null || exit 1
